#!/venv/bin/python
"""Confirm and evaluate seeded changes.

usage: tools/run_seeded.py [--confirm] [--checks "C01 C12"] <seed-id> ...
For each /verif/seeded/<seed-id>/: make a scratch worktree of /repo HEAD, apply patch.diff,
(--confirm) run demo.py with and without the change and the repository's tests with the change,
run the property's quick check (and any extra checks) with VERIF_REPO pointing at the worktree,
record what was observed in meta.json, remove the worktree."""
import json, os, subprocess, sys, shutil, time
V = "/verif"
TEST_CMD = ["/venv/bin/python", "-m", "pytest", "-q", "-p", "no:cacheprovider", "-x", "-n", "8", "--timeout=900", "tests", "--ignore=tests/test_cli.py", "-k",
            "not benchmarks and not test_examples and not test_c_codegen and not test_expressions_with_invalid_unit"]

def sh(cmd, **kw):
    return subprocess.run(cmd, capture_output=True, text=True, **kw)

def main():
    args = sys.argv[1:]
    confirm = "--confirm" in args
    extra = []
    if "--checks" in args:
        extra = args[args.index("--checks") + 1].split()
        del args[args.index("--checks"): args.index("--checks") + 2]
    ids = [a for a in args if not a.startswith("--")]
    for sid in ids:
        d = os.path.join(V, "seeded", sid)
        meta = json.load(open(os.path.join(d, "meta.json")))
        wt = f"/tmp/mutwt-{sid}-{os.getpid()}"
        sh(["git", "-C", "/repo", "worktree", "add", "--detach", "-q", wt, "HEAD"])
        try:
            env = dict(os.environ, PYTHONPATH=os.path.join(wt, "src"), PATH="/venv/bin:" + os.environ["PATH"], PYTHONDONTWRITEBYTECODE="1")
            if confirm:
                r0 = sh(["/venv/bin/python", os.path.join(d, "demo.py")], env=env, cwd=wt, timeout=600)
                meta["demo_exit_without_change"] = r0.returncode
            ap = sh(["git", "-C", wt, "apply", os.path.join(d, "patch.diff")])
            if ap.returncode != 0:
                meta["applies_to_head"] = False
                meta["apply_error"] = ap.stderr[-300:]
                print(sid, "PATCH DOES NOT APPLY", ap.stderr[-200:])
                json.dump(meta, open(os.path.join(d, "meta.json"), "w"), indent=1)
                continue
            meta["applies_to_head"] = True
            if confirm:
                r1 = sh(["/venv/bin/python", os.path.join(d, "demo.py")], env=env, cwd=wt, timeout=600)
                meta["demo_exit_with_change"] = r1.returncode
                t = sh(TEST_CMD, env=env, cwd=wt, timeout=1800)
                tail = (t.stdout.strip().splitlines() or ["?"])[-1]
                if t.returncode != 0 and " error" in tail and "failed" not in tail:
                    # tests/test_save.py shares one file name between two tests and races under xdist (also on the unchanged tree): retry serially
                    t = sh([a for a in TEST_CMD if a not in ("-n", "8")], env=env, cwd=wt, timeout=3600)
                    tail = (t.stdout.strip().splitlines() or ["?"])[-1] + " (serial retry after an xdist race in tests/test_save.py)"
                meta["tests_with_change"] = tail
                meta["confirmed"] = bool(meta.get("demo_exit_without_change") == 0 and r1.returncode != 0 and t.returncode == 0)
                meta["what_i_ran"] = ["demo.py on HEAD (exit %s) and with the change (exit %s)" % (meta.get("demo_exit_without_change"), r1.returncode), " ".join(TEST_CMD[:3]) + " ... : " + tail]
                print(sid, "confirmed" if meta["confirmed"] else "NOT CONFIRMED", meta["demo_exit_without_change"], r1.returncode, tail)
            det = meta.get("detected_by") or {}
            for chk in [meta["property"]] + [c for c in extra if c != meta["property"]]:
                t0 = time.time()
                e2 = dict(os.environ, VERIF_REPO=wt, VERIF_SEED=os.environ.get("VERIF_SEED", "0"))
                r = sh([os.path.join(V, "check"), chk, "quick"], env=e2, cwd=V, timeout=3600)
                viol = [l for l in r.stdout.splitlines() if l.startswith("VIOLATION")]
                cls = [l.strip()[:300] for l in r.stdout.splitlines() if l.startswith("  class=")]
                det[chk] = {"exit": r.returncode, "violation_lines": len(viol), "first_class": cls[0] if cls else None, "seconds": round(time.time() - t0, 1)}
                print(f"   {sid} vs {chk}: exit={r.returncode} violations={len(viol)} {cls[0][:160] if cls else ''}")
            meta["detected_by"] = det
            meta["detected"] = any(v["exit"] == 1 for v in det.values())
            json.dump(meta, open(os.path.join(d, "meta.json"), "w"), indent=1)
        finally:
            sh(["git", "-C", "/repo", "worktree", "remove", "--force", wt])
            shutil.rmtree(wt, ignore_errors=True)
    sh(["git", "-C", "/repo", "worktree", "prune"])
    # evidence files were rewritten against scratch trees: they must be regenerated against /repo before committing
    print("NOTE: evidence/<id>.json now reflects a run against a scratch tree; re-run the check on /repo before committing evidence")

main()
