#!/venv/bin/python
"""Run the repository's own tests with the in-flight contracts (K1 K3 K4 K5 K6 K7 K8) attached and report what
they observed.  usage: tools/contracts_under_tests.py [-n JOBS]   -> reports/contracts_under_repo_tests.json
A contract that fires here is either too strict or a defect the tests do not assert: read the witness."""
import glob, json, os, shutil, subprocess, sys, tempfile

V = "/verif"
REPO = os.environ.get("VERIF_REPO", "/repo")
jobs = sys.argv[sys.argv.index("-n") + 1] if "-n" in sys.argv else "8"
out = tempfile.mkdtemp(prefix="vfk-")
env = dict(os.environ, PYTHONPATH=f"{V}:{V}/.deps:{REPO}/src", PATH="/venv/bin:" + os.environ["PATH"], VF_CONTRACTS_OUT=out, FINSBERG_GOTRANX_VERIF="1", PYTHONDONTWRITEBYTECODE="1")
cmd = ["/venv/bin/python", "-m", "pytest", "-q", "-p", "no:cacheprovider", "-p", "vf.monitors.pytest_plugin", "-n", jobs, "--timeout=900", "tests", "--ignore=tests/test_cli.py", "-k",
       "not benchmarks and not test_examples and not test_expressions_with_invalid_unit"]  # the deselected tests fail on the unchanged tree without the plugin too
p = subprocess.run(cmd, cwd=REPO, env=env, capture_output=True, text=True)
tail = (p.stdout.strip().splitlines() or ["?"])[-1]
tot, fails, att = {}, [], {}
for f in glob.glob(os.path.join(out, "*.json")):
    d = json.load(open(f))
    for k, v in d["counters"].items():
        tot[k] = tot.get(k, 0) + v
    fails += d["failures"]
    att = d["attached"] or att
shutil.rmtree(out, ignore_errors=True)
sys.path.insert(0, V)
from vf.props import findings  # noqa: E402

unlisted = []
for f_ in fails:
    v = {"kind": "contract", "subkind": f_["contract"], "detail": f_, "finding": None}
    findings.classify("C16" if f_["contract"] == "K7" else "", v)
    f_["finding"] = v["finding"]
    if not v["finding"]:
        unlisted.append(f_)
rep = {"command": " ".join(cmd), "pytest": tail, "attached_sites": att, "evaluations": {k: v for k, v in sorted(tot.items())}, "failures": fails[:40], "unlisted_failures": len(unlisted)}
json.dump(rep, open(os.path.join(V, "reports", "contracts_under_repo_tests.json"), "w"), indent=1, default=str)
print(tail)
print("contract evaluations:", rep["evaluations"])
print("failures:", len(fails), "unlisted:", len(unlisted))
for f_ in unlisted[:5]:
    print("  ", json.dumps(f_, default=str)[:400])
sys.exit(1 if unlisted or p.returncode not in (0, 1) else 0)
