#!/venv/bin/python
"""Copy mutants produced by the sub-agents (<src>/<ID>/mutants/m<k>) into /verif/seeded/<ID>-m<k+offset>/.
usage: import_seeds.py [src=/tmp/seed] [offset=0]"""
import json, os, shutil, sys
SRC = sys.argv[1] if len(sys.argv) > 1 else "/tmp/seed"
OFFSET = int(sys.argv[2]) if len(sys.argv) > 2 else 0   # round 2: m1..m3 -> m4..m6
DST = "/verif/seeded"
for pid in sorted(os.listdir(SRC)):
    md = os.path.join(SRC, pid, "mutants")
    if not os.path.isdir(md):
        continue
    for m in sorted(os.listdir(md)):
        d = os.path.join(md, m)
        if not (os.path.isdir(d) and os.path.exists(os.path.join(d, "patch.diff"))):
            continue
        out = os.path.join(DST, f"{pid}-m{int(m[1:]) + OFFSET}" if OFFSET else f"{pid}-{m}")
        if os.path.exists(os.path.join(out, "meta.json")):
            continue
        os.makedirs(out, exist_ok=True)
        for f in ("patch.diff", "demo.py", "notes.md"):
            if os.path.exists(os.path.join(d, f)):
                shutil.copy(os.path.join(d, f), os.path.join(out, f))
        notes = open(os.path.join(out, "notes.md")).read() if os.path.exists(os.path.join(out, "notes.md")) else ""
        json.dump({"property": pid, "needs_to_manifest": notes.strip()[:1200], "origin": "independent sub-agent given only the property text and a scratch worktree", "confirmed": None, "detected_by": None}, open(os.path.join(out, "meta.json"), "w"), indent=1)
        print("imported", out)
