import sys, warnings, random
warnings.simplefilter('ignore')
sys.path.insert(0,'/verif')
from vf.core import env; env.prepare()
from vf.props import common as C
import sympy as sp
t="states(E_=0.05)\nparameters(c0_w0=1.2)\nsub = 2.0\nc2_E_alpha = sub*0.125 + floor(floor(0.25/(Abs(E_) + 0.75))/(Abs(Mod(0.25, Abs(c0_w0) + 0.75)) + 0.75))\ndE__dt = c2_E_alpha\n"
def line():
    ode=C.load_text(t).value
    return str(ode['c2_E_alpha'].expr)
print('fresh:', line())
# pollute: plain symbols with the same names, various floor expressions
E=sp.Symbol('E_'); w=sp.Symbol('c0_w0')
for k in range(200):
    x=sp.floor(sp.floor(sp.Float(0.25)/(sp.Abs(E)+0.75))/(sp.Abs(sp.Mod(0.25, sp.Abs(w)+0.75))+0.75))
    y=sp.floor(-sp.Float(0.25)/(sp.Abs(E)+0.75))
    z=sp.ceiling(sp.Float(0.25)/(sp.Abs(E)+0.75))
print('plain:', x, '|', y, '|', z)
print('after:', line())
import myokit, gotranx.myokit as gm
from vf.gen import myokitgen
seen=set()
for i in range(120):
    for attempt in range(3):
        try:
            m=myokit.parse_model(myokitgen.gen_mmt(random.Random(f"4:{i}:{attempt}"))); m.validate(); break
        except Exception: m=None
    if m is None: continue
    try:
        ode=gm.myokit_to_gotran(m)
        import tempfile; p=tempfile.mkdtemp()+'/a.ode'; ode.save(p)
        from gotranx.load import load_ode; o2=load_ode(p); C.py_code(o2)
    except Exception: pass
    l=line()
    if l not in seen: seen.add(l); print(i, l)
