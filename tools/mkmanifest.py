#!/venv/bin/python
"""Regenerate MANIFEST.json from the table below (kept in one place so it stays valid)."""
import json, os, subprocess
HERE = os.path.dirname(os.path.dirname(os.path.abspath(__file__)))
T = "runtime monitoring: "
CHECKS = {
 "C01": ("exploration", "refmodel-differential", T + "reference-model oracle (CPython ast + mpmath with error bounds) over recorded executions of the generated numpy rhs",
         "generated numpy rhs executed on enumerated operator/function/conditional/literal tables, graph shapes, corpus and seeded random models; every derivative compared by name with an independent reference at decidable points"),
 "C02": ("exploration", "c-sanitizer-driver", T + "generated C compiled by gcc and clang (default mode), executed under ASan+UBSan with exact-size heap buffers and canaries and under gcc -O2; reference-model oracle per output slot",
         "compile diagnostics, sanitizer reports, unwritten slots and every output slot of rhs/monitor_values/schemes/init_* against the reference"),
 "C03": ("exploration", "refmodel-differential", T + "generated JAX module executed under jit and under jax.disable_jit(); output lengths and values against the reference model",
         "every function of the jax module on And/Or arity tables, conditionals, 0-parameter and many-monitor models, random models, in both modes"),
 "C04": ("exploration", "slot-structure", T + "structural monitors on index maps / unknown-name probes / keyword overrides, and by-name value location at points with pairwise distinct values, over 6 rhs and 24 scheme argument orders, three back ends (C under ASan with canaries)",
         "bijection, refusal of unknown names, init defaults/overrides, slot of every rhs/scheme/monitor value, declared counts, formal-parameter permutations"),
 "C05": ("exploration", "refmodel-differential", T + "explicit Euler output vs states + dt*rhs of the same module (rigorous 4u bound), dt=0 identity, input-mutation recorder, all aliases, numpy/jax/C(ASan)",
         "Euler identity at every finite sampled point incl. dt in {0, 1e-12, 1e-3, 0.1, 10, -0.1}"),
 "C06": ("exploration", "refmodel-differential", T + "generalized Rush-Larsen output vs the exponential-integrator formula with g from the reference's own forward-mode AD; points placed on both sides of the |g| > delta guard; numpy/jax/C",
         "rate-shape catalogue x delta {1e-8,1e-3,0.5} x backend; branch census (rl / euler_guard) in the evidence"),
 "C07": ("exploration", "refmodel-differential", T + "hybrid Rush-Larsen compared slot by slot with the same module's generalized_rush_larsen and explicit_euler for all/sampled stiff subsets, foreign names and duplicates; numpy/jax/C",
         "subset enumeration for n <= 3, sampled otherwise"),
 "C12": ("exploration", "refmodel-differential", T + "differential execution of modules generated with and without unused-variable removal (rhs + three schemes, layout, init arrays, lengths, NameError/compile/sanitizer events); numpy/jax/C",
         "models with unused parameters/states/chains, order-changing removals"),
 "C14": ("exploration", "refmodel-differential", T + "metamorphic column-independence monitor: batched call vs single-column calls, batches chosen by the reference on different sides of every condition",
         "N in {1,2,7,64}, scalar and per-column t/parameters, rhs/monitor_values/three schemes"),
}
def main():
    known = json.load(open(os.path.join(HERE, "known_findings.json")))
    checks = []
    for pid, (cat, eng, tech, text) in sorted(CHECKS.items()):
        if not os.path.exists(os.path.join(HERE, "vf", "props", pid.lower() + ".py")):
            continue
        checks.append({
            "property_id": pid, "quick_cmd": f"./check {pid} quick", "thorough_cmd": f"./check {pid} thorough",
            "evidence_file": f"evidence/{pid}.json", "replay_cmd_template": f"./check {pid} --replay {{path}}", "engine": eng,
            "level_claimed": {"category": cat, "text": text + "; held = no unlisted violation on the executions observed (counts in the evidence), never 'verified'", "design_ref": f"DESIGN.md section 4 / {pid}"},
            "level_note": "trusted base: CPython's parser, mpmath, the reference evaluator vf/refmodel, clang/gcc and their sanitizers; sampled inputs only; points near discontinuities or ill-conditioned are skipped and counted",
            "technique": tech})
    props = [json.loads(l)["id"] for l in open(os.path.join(HERE, "properties.jsonl"))]
    na = [{"property_id": p, "reason": "check under construction in this session (runtime-monitoring design exists in DESIGN.md section 4); not yet claimed"} for p in props if p not in {c["property_id"] for c in checks}]
    commits = []
    man = {
        "version": 1, "setup_cmd": "./setup.sh",
        "hooks": {"guard": "FINSBERG_GOTRANX_VERIF", "enable": "harness-side wrappers only (recorders around generated functions, contracts attached from the harness); the repository contains no hook code",
                  "baseline_off_cmd": "cd /repo && /venv/bin/python -m pytest -ra -q -p no:cacheprovider --timeout=900 --continue-on-collection-errors", "source_commits": commits, "add_only": True},
        "engines": [
            {"name": "refmodel-differential", "path": "vf/refmodel, vf/gen, vf/exec/pyexec.py, vf/exec/backends.py", "serves_properties": [p for p, v in CHECKS.items() if v[1] == "refmodel-differential"], "kind_free_text": "independent reference evaluator + recorded executions of generated code"},
            {"name": "c-sanitizer-driver", "path": "vf/exec/cexec.py, vf/exec/driver.c", "serves_properties": ["C02", "C04", "C05", "C06", "C07", "C12"], "kind_free_text": "clang ASan+UBSan / gcc -O2 builds of the generated C behind a generic driver with exact-size buffers and canaries"},
            {"name": "slot-structure", "path": "vf/props/c04.py", "serves_properties": ["C04"], "kind_free_text": "structural monitors on generated index functions and argument orders"},
        ],
        "checks": checks, "not_applicable": na,
        "notes": "every check runs the real code of /repo's working tree (VERIF_REPO) in worker subprocesses; exit 0 held / 1 VIOLATION / 2 INCONCLUSIVE; known findings in known_findings.json (by mechanism)",
    }
    json.dump(man, open(os.path.join(HERE, "MANIFEST.json"), "w"), indent=1)
    import sys
    sys.path.append(os.path.join(HERE, ".deps"))
    import jsonschema
    jsonschema.validate(man, json.load(open(os.path.join(HERE, "schemas", "MANIFEST.schema.json"))))
    print("MANIFEST.json:", len(checks), "checks,", len(na), "not yet claimed")
main()
