"""floor() of an unevaluated product with a literal zero factor is folded to 0 or to -1 depending on the *process*,
also when the process is a fresh interpreter with PYTHONHASHSEED=0 (the assumptions sympy derives for
Mul(0, x, evaluate=False) are inconsistent: is_zero False together with is_negative True in some processes).
gotranx builds every product unevaluated, so `floor(0 * beta7)` in a model text meets this while it is loaded.

    /venv/bin/python tools/sympy_floor_fresh.py [N]      # N fresh interpreters (default 64), prints the tally
"""
import collections
import os
import subprocess
import sys
from concurrent.futures import ThreadPoolExecutor

SNIPPET = """
import sympy as sp
x = sp.Symbol('beta7', real=True, finite=True)
a = sp.Mul(sp.Integer(0), x, evaluate=False)
print('floor ->', sp.floor(a), '| is_zero', a.is_zero, '| is_negative', a.is_negative, '| is_positive', a.is_positive)
"""


def one(_):
    e = dict(os.environ, PYTHONHASHSEED="0")
    return subprocess.run(["/venv/bin/python", "-c", SNIPPET], capture_output=True, text=True, env=e, timeout=300).stdout.strip()


if __name__ == "__main__":
    n = int(sys.argv[1]) if len(sys.argv) > 1 else 64
    with ThreadPoolExecutor(16) as ex:
        tally = collections.Counter(ex.map(one, range(n)))
    for k, c in tally.most_common():
        print(f"{c:4d}  {k}")
