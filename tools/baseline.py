#!/venv/bin/python
"""Run the repository's pinned suite (guard OFF) and compare with /root/.vp/BASELINE.json.
usage: tools/baseline.py [-n JOBS]   exit 0 iff every stable_pass test still passes."""
import json, os, subprocess, sys, tempfile, xml.etree.ElementTree as ET
jobs = sys.argv[sys.argv.index("-n") + 1] if "-n" in sys.argv else "0"
base = json.load(open("/root/.vp/BASELINE.json"))
fd, xml = tempfile.mkstemp(suffix=".xml"); os.close(fd)
env = {k: v for k, v in os.environ.items() if k != "FINSBERG_GOTRANX_VERIF"}
cmd = ["/venv/bin/python", "-m", "pytest", "-q", "-p", "no:cacheprovider", "--timeout=900", "--continue-on-collection-errors", f"--junitxml={xml}"]
if jobs != "0":
    cmd += ["-n", jobs]
subprocess.run(cmd, cwd="/repo", env=env, stdout=subprocess.DEVNULL, stderr=subprocess.DEVNULL)
passed = set()
for tc in ET.parse(xml).getroot().iter("testcase"):
    if not any(ch.tag in ("failure", "error", "skipped") for ch in tc):
        passed.add(f"{tc.get('classname')}::{tc.get('name')}")
os.unlink(xml)
missing = [t for t in base["stable_pass"] if t not in passed]
print(f"baseline: {len(base['stable_pass']) - len(missing)}/{len(base['stable_pass'])} stable tests pass; newly passing: {len(passed - set(base['stable_pass']))}")
for t in missing[:20]:
    print("  MISSING", t)
sys.exit(1 if missing else 0)
