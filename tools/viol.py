import json, collections, sys
recs=[json.loads(l) for l in open(sys.argv[1])]
c=collections.Counter(); ex={}
for r in recs:
    for v in r.get('violations') or []:
        d=v['detail']
        key=(v['kind'], v.get('finding'), (d.get('exc') or '')[:60])
        c[key]+=1
        ex.setdefault(key,(r['id'],d))
for k,n in c.most_common(): print(n,k); print('    ',ex[k][0], json.dumps(ex[k][1])[:500])
print(collections.Counter(r['status'] for r in recs))
print(collections.Counter((r.get('reason') or '')[:100] for r in recs if r['status'] not in('held','violated')))
