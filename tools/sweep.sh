#!/bin/sh
# tools/sweep.sh "<ids>" "<seeds>" [tier]  - run checks from fresh processes, print one line per run
cd "$(dirname "$0")/.."
ids="${1:-C01 C02 C03 C04 C05 C06 C07 C12 C14}"; seeds="${2:-0 1 2 3}"; tier="${3:-quick}"
for id in $ids; do for sd in $seeds; do
  out=$(VERIF_SEED=$sd PYTHONHASHSEED=0 ./check $id $tier 2>&1); rc=$?
  echo "$id seed=$sd rc=$rc $(echo "$out" | grep -v '^KNOWN\|^  class' | tail -1 | cut -c1-150)"
  if [ $rc -ne 0 ]; then echo "$out" | grep -A1 '^VIOLATION\|^INCONCLUSIVE' | head -8 | cut -c1-400; fi
done; done
