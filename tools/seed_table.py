#!/venv/bin/python
"""Summarise seeded/<ID>-m<k>/meta.json: which checks fired on which seeded change (markdown)."""
import glob, json, os, re
rows = []
for d in sorted(glob.glob("/verif/seeded/*/meta.json"), key=lambda p: (re.findall(r"C\d+", p)[0], int(re.findall(r"-m(\d+)", p)[0]))):
    m = json.load(open(d))
    sid = os.path.basename(os.path.dirname(d))
    det = m.get("detected_by") or {}
    own = det.get(m["property"], {})
    fired = [c for c, v in det.items() if v.get("exit") == 1]
    rows.append((sid, m["property"], m.get("confirmed"), own.get("exit"), fired, (own.get("first_class") or "")[:60]))
own_ok = [r for r in rows if r[3] == 1]
other = [r for r in rows if r[3] != 1 and r[4]]
missed = [r for r in rows if r[3] != 1 and not r[4]]
print(f"total {len(rows)}; caught by own property's quick check: {len(own_ok)}; only by another property's check: {len(other)}; not caught: {len(missed)}")
print("own:", ", ".join(r[0] for r in own_ok))
print("other:", ", ".join(f"{r[0]} ({'/'.join(r[4])})" for r in other))
print("missed:", ", ".join(r[0] for r in missed))
print("unconfirmed:", ", ".join(r[0] for r in rows if r[2] is not True))
