#!/bin/sh
# Offline setup: third-party helper packages for the harness, installed beside (not into) /venv.
# Idempotent. Nothing is compiled ahead of time; every check rebuilds what it needs from /repo.
set -e
cd "$(dirname "$0")"
if [ ! -d .deps/icontract ] || [ ! -d .deps/jsonschema ]; then
  PIP_NO_INDEX=1 /venv/bin/pip install --quiet --no-index --find-links /opt/veriftools/wheels \
      --target .deps icontract jsonschema 2>&1 | grep -v -i "warning" || true
fi
mkdir -p evidence replays
PYTHONPATH=/verif:/verif/.deps /venv/bin/python -m vf.selftest
