"""Self-tests of the reference machinery (run by setup.sh, < 30 s).

1. evaluator vs plain float evaluation: the float result must lie within the evaluator's own bound
   (validates the *bound*, the safety-critical part);
2. evaluator vs exact rational arithmetic on + - * / and integer powers;
3. forward-mode AD vs mpmath.diff;
4. decision-margin logic on hand-written tie / near-tie cases;
5. renderer/scanner round trip of generated models (names, kinds, right-hand sides).
"""
from __future__ import annotations

import math
import random
import sys
from fractions import Fraction

import mpmath

from .gen.exprs import ExprGen, Profile
from .gen.models import gen_model
from .refmodel import evalref as E
from .refmodel.model import RefModel

PYENV = {"exp": math.exp, "cos": math.cos, "sin": math.sin, "tan": math.tan, "acos": math.acos, "asin": math.asin, "atan": math.atan, "log": math.log, "ln": math.log,
         "sqrt": math.sqrt, "abs": abs, "Abs": abs, "floor": math.floor, "pi": math.pi, "Mod": lambda a, b: a - b * math.floor(a / b),
         "Conditional": lambda c, a, b: a if c else b, "Lt": lambda a, b: a < b, "Gt": lambda a, b: a > b, "Le": lambda a, b: a <= b, "Ge": lambda a, b: a >= b, "Eq": lambda a, b: a == b,
         "Not": lambda a: not a, "And": lambda *a: all(a), "Or": lambda *a: any(a)}


def t_bound(n=4000):
    rng = random.Random(1)
    bad = checked = 0
    prof = Profile(ccond=False, cond=False)  # eager python conditionals would evaluate both branches
    names = ["x", "y", "z"]
    for i in range(n):
        g = ExprGen(rng, names, prof)
        tx = g.num(3)
        env = {k: rng.choice([0.5, 1.25, -0.75, 2.0, 3.5, rng.uniform(-3, 3)]) for k in names}
        env["t"] = env["time"] = 0.375
        try:
            node, src = E.parse_expr(tx)
            ev = E.Evaluator({k: E.val_from_float(v) for k, v in env.items()}, {}, {})
            val = ev.expr(node, src)
        except (E.Undefined, E.Undecidable, E.Unsupported):
            continue
        if not E.well_conditioned(val):
            continue
        try:
            got = eval(compile(src, "<e>", "eval"), dict(PYENV), dict(env))
        except (ZeroDivisionError, ValueError, OverflowError, TypeError):
            continue
        if isinstance(got, complex):
            continue
        checked += 1
        if not E.agrees(float(got), val):
            bad += 1
            print("BOUND VIOLATED:", tx, env, got, val, file=sys.stderr)
    return checked, bad


def t_rational(n=1500):
    rng = random.Random(2)
    bad = checked = 0
    for i in range(n):
        leaves = [str(rng.randint(-9, 9)) for _ in range(4)] + ["0.5", "0.25", "1.5"]
        tx = rng.choice(leaves)
        for _ in range(rng.randint(1, 5)):
            op = rng.choice(["+", "-", "*", "/"])
            r = rng.choice(leaves)
            tx = f"({tx}) {op} ({r})"
        try:
            exact = eval(tx.replace("/", "/"), {"__builtins__": {}}, {}) if False else None
        except Exception:
            pass
        try:
            fr = eval(compile(__import__("re").sub(r"(\d+\.?\d*)", r"Fraction('\1')", tx), "<f>", "eval"), {"Fraction": Fraction})
        except ZeroDivisionError:
            continue
        try:
            node, src = E.parse_expr(tx)
            val = E.Evaluator({}, {}, {}).expr(node, src)
        except (E.Undefined, E.Undecidable):
            continue
        checked += 1
        want = E.mpf(fr.numerator) / E.mpf(fr.denominator)
        if abs(val.v - want) > E.mpf(10) ** -50 * (1 + abs(want)):
            bad += 1
            print("RATIONAL MISMATCH:", tx, val, fr, file=sys.stderr)
    return checked, bad


def t_ad(n=600):
    rng = random.Random(3)
    bad = checked = 0
    prof = Profile(ccond=False, cond=False, mod=False, funcs=["exp", "cos", "sin", "atan", "log", "sqrt", "tan"])
    for i in range(n):
        g = ExprGen(rng, ["x", "x", "y"], prof)
        tx = g.num(3)
        x0, y0 = rng.choice([0.5, 1.25, 2.0, 0.75]), rng.choice([0.5, 1.5])
        node, src = E.parse_expr(tx)

        def f(xv):
            ev = E.Evaluator({"x": E.Val(E.mpf(xv), E.ZERO, False), "y": E.val_from_float(y0), "t": E.val_from_float(0.5), "time": E.val_from_float(0.5)}, {}, {})
            return ev.expr(node, src).v

        try:
            ev = E.Evaluator({"x": E.val_from_float(x0, 1), "y": E.val_from_float(y0, 0), "t": E.val_from_float(0.5, 0), "time": E.val_from_float(0.5, 0)}, {}, {}, want_d=True)
            val = ev.expr(node, src)
            with mpmath.workdps(40):
                num = E.ctx.diff(f, E.mpf(x0))
        except (E.Undefined, E.Undecidable, E.Unsupported, ZeroDivisionError, ValueError):
            continue
        if val.d is None:
            continue
        checked += 1
        if abs(val.d - num) > E.mpf("1e-15") * (1 + abs(num) + (val.dm or 0)):
            bad += 1
            print("AD MISMATCH:", tx, x0, y0, val.d, num, file=sys.stderr)
    return checked, bad


def t_margins():
    bad = 0

    def ev(tx, **kw):
        node, src = E.parse_expr(tx)
        e = E.Evaluator({k: E.val_from_float(v) for k, v in kw.items()}, {}, {})
        return e.expr(node, src)

    cases = [
        ("Conditional(Eq(x, 1), 10, 20)", {"x": 1.0}, 10), ("Conditional(Ge(x, 0), 10, 20)", {"x": 0.0}, 10), ("floor(2*x)", {"x": 1.5}, 3),
        ("Conditional(Lt(x, 1.5), 10, 20)", {"x": 1.5}, 20), ("Mod(x, 2)", {"x": -1.25}, 0.75), ("Mod(x, -2)", {"x": 1.25}, -0.75), ("Conditional(Le(-1.125, x), 1, 2)", {"x": -1.125}, 1),
    ]
    for tx, env, want in cases:
        try:
            v = ev(tx, **env)
            if float(v.v) != want:
                bad += 1
                print("MARGIN VALUE:", tx, env, v, want, file=sys.stderr)
        except (E.Undefined, E.Undecidable) as exc:
            bad += 1
            print("MARGIN should be decidable:", tx, env, exc, file=sys.stderr)
    for tx, env in [("Conditional(Eq(0.1*3, 0.3), 1, 2)", {}), ("Conditional(Lt(x/3, 1), 1, 2)", {"x": 3.0}), ("floor(x*10)", {"x": 0.3}), ("1/(x - x*1.0000000001)", {"x": 1.0})]:
        try:
            v = ev(tx, **env)
            if E.well_conditioned(v):
                bad += 1
                print("MARGIN should be undecidable:", tx, env, v, file=sys.stderr)
        except (E.Undefined, E.Undecidable):
            pass
    return len(cases) + 4, bad


def t_roundtrip(n=400):
    bad = 0
    for i in range(n):
        rng = random.Random(f"rt:{i}")
        spec = gen_model(rng, Profile(), depth=2)
        text = spec.render(rng)
        m = RefModel.from_text(text)
        want_states = {s[0] for s in spec.states}
        want_params = {p[0] for p in spec.params}
        want_assign = {a[0]: (a[1], a[2]) for a in spec.assigns}
        ok = set(m.states) == want_states and set(m.params) == want_params and set(m.assigns) == set(want_assign)
        ok = ok and all("".join(m.assigns[k].rhs.split()) == "".join(v[0].split()) and m.assigns[k].comps == ((v[1],) if True else None) for k, v in want_assign.items())
        ok = ok and m.ill_formed() is None
        if not ok:
            bad += 1
            print("ROUNDTRIP MISMATCH in model", i, file=sys.stderr)
    return n, bad


def main():
    total_bad = 0
    for name, fn in (("float-bound", t_bound), ("rational", t_rational), ("forward-AD", t_ad), ("margins", t_margins), ("render/scan", t_roundtrip)):
        n, bad = fn()
        total_bad += bad
        print(f"selftest {name}: {n} checked, {bad} failed")
        if n == 0:
            total_bad += 1
    sys.exit(1 if total_bad else 0)


if __name__ == "__main__":
    main()
