print("selftest: placeholder")
