"""Process environment shared by all harness processes."""
from __future__ import annotations

import os
import sys

VERIF = os.path.dirname(os.path.dirname(os.path.dirname(os.path.abspath(__file__))))
REPO = os.environ.get("VERIF_REPO", "/repo")
DEPS = os.path.join(VERIF, ".deps")


def prepare(quiet=True):
    """Import gotranx from $VERIF_REPO/src (the working tree), silence its logging."""
    src = os.path.join(REPO, "src")
    if src not in sys.path:
        sys.path.insert(0, src)
    if DEPS not in sys.path:
        sys.path.append(DEPS)  # last: never shadow the repository's own environment
    import warnings

    warnings.simplefilter("ignore")
    import gotranx  # noqa

    got = os.path.realpath(os.path.dirname(gotranx.__file__))
    want = os.path.realpath(os.path.join(src, "gotranx"))
    if got != want:
        raise RuntimeError(f"gotranx imported from {got}, expected {want}")
    if quiet:
        import logging

        import structlog

        structlog.configure(wrapper_class=structlog.make_filtering_bound_logger(logging.CRITICAL))
    return gotranx


def child_env(hashseed="0"):
    e = dict(os.environ)
    e["PYTHONPATH"] = os.pathsep.join([VERIF, os.path.join(REPO, "src")])
    e["PYTHONHASHSEED"] = str(hashseed)
    e["OMP_NUM_THREADS"] = "1"
    e["OPENBLAS_NUM_THREADS"] = "1"
    e["MKL_NUM_THREADS"] = "1"
    e["JAX_PLATFORMS"] = "cpu"
    e["XLA_FLAGS"] = "--xla_cpu_multi_thread_eigen=false intra_op_parallelism_threads=1"
    e["PATH"] = "/venv/bin:" + e.get("PATH", "")
    e["FINSBERG_GOTRANX_VERIF"] = "1"
    e["PYTHONDONTWRITEBYTECODE"] = "1"
    return e
