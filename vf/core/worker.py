"""Worker process: reads case specs (JSON lines) on stdin, answers on a private pipe.

Protocol (fd inherited as the original stdout): ``START <id>`` before a case executes,
``REC <json>`` after it.  The worker's own stdout is redirected to stderr so that nothing
the code under observation prints can corrupt the protocol.
"""
from __future__ import annotations

import importlib
import json
import os
import signal
import sys
import time
import traceback


class CaseTimeout(Exception):
    pass


def _alarm(signum, frame):
    raise CaseTimeout()


def main():
    prop = sys.argv[1]
    proto = os.fdopen(os.dup(1), "w", buffering=1)
    os.dup2(2, 1)
    sys.stdout = sys.stderr
    from . import env

    env.prepare()
    contracts = None
    if os.environ.get("FINSBERG_GOTRANX_VERIF") == "1" and os.environ.get("VERIF_CONTRACTS", "1") == "1":
        try:
            from ..monitors import contracts

            contracts.attach()
        except Exception:
            contracts = None
    mod = importlib.import_module(f"vf.props.{prop.lower()}")
    signal.signal(signal.SIGALRM, _alarm)
    ctx = {}
    proto.write("READY\n")
    for line in sys.stdin:
        line = line.strip()
        if not line:
            continue
        spec = json.loads(line)
        cid = spec.get("id", "?")
        proto.write(f"START {cid}\n")
        t0 = time.time()
        soft = float(spec.get("soft_timeout", 90))
        signal.setitimer(signal.ITIMER_REAL, soft)
        try:
            rec = mod.run_case(spec, ctx)
        except CaseTimeout:
            rec = {"status": "inconclusive", "reason": f"soft timeout {soft}s"}
        except Exception as exc:  # machinery error: never a verdict about gotranx
            rec = {
                "status": "inconclusive",
                "reason": "harness exception: " + type(exc).__name__ + ": " + str(exc)[:300],
                "traceback": traceback.format_exc()[-2000:],
            }
        finally:
            signal.setitimer(signal.ITIMER_REAL, 0)
        if contracts is not None:
            cc, cf = contracts.drain()
            rec["contracts"] = cc
            rec["contracts_attached"] = dict(contracts.ATTACHED)
            for f_ in cf:
                v = {"kind": "contract", "subkind": f_["contract"], "detail": f_, "finding": None}
                try:
                    from ..props import findings

                    findings.classify(spec.get("prop"), v, text=rec.get("model_text") or "")
                except Exception:
                    pass
                rec.setdefault("violations", []).append(v)
                rec["status"] = "violated"
        vs = rec.get("violations") or []
        if len(vs) > 12:
            # keep every violation no matcher attributed to a listed mechanism; cap the attributed ones
            unl = [v for v in vs if not v.get("finding")]
            lis = [v for v in vs if v.get("finding")]
            rec["violations_total"] = len(vs)
            rec["violations"] = unl[:40] + lis[:12]
        rec.setdefault("id", cid)
        rec.setdefault("klass", spec.get("klass"))
        rec["wall_s"] = round(time.time() - t0, 3)
        proto.write("REC " + json.dumps(rec, default=str) + "\n")


if __name__ == "__main__":
    main()
