"""./check entry point: runner, watchdog, aggregation, verdict lines, evidence."""
from __future__ import annotations

import hashlib
import importlib
import json
import os
import select
import shutil
import subprocess
import sys
import tempfile
import threading
import time

from . import env

PY = "/venv/bin/python"


def ensure_deps():
    if os.path.isdir(os.path.join(env.DEPS, "jsonschema")) and os.path.isdir(os.path.join(env.DEPS, "icontract")):
        return True
    cmd = [PY, "-m", "pip", "install", "--quiet", "--no-index", "--find-links", "/opt/veriftools/wheels", "--target", env.DEPS, "icontract", "jsonschema"]
    e = dict(os.environ, PIP_NO_INDEX="1")
    try:
        subprocess.run(cmd, env=e, stdout=subprocess.DEVNULL, stderr=subprocess.DEVNULL, timeout=300)
    except Exception:
        pass
    return os.path.isdir(os.path.join(env.DEPS, "jsonschema"))


class Worker:
    def __init__(self, prop, idx, logdir, hashseed="0"):
        self.prop = prop
        self.idx = idx
        self.logdir = logdir
        self.hashseed = hashseed
        self.proc = None
        self.start()

    def start(self):
        self.errlog = open(os.path.join(self.logdir, f"worker{self.idx}.err"), "ab")
        self.proc = subprocess.Popen(
            [PY, "-m", "vf.core.worker", self.prop],
            stdin=subprocess.PIPE,
            stdout=subprocess.PIPE,
            stderr=self.errlog,
            env=env.child_env(self.hashseed),
            cwd=env.VERIF,
        )
        self.buf = b""
        line = self.readline(120)
        if line != "READY":
            tail = ""
            try:
                tail = open(self.errlog.name, "rb").read()[-1500:].decode("utf8", "replace")
            except Exception:
                pass
            raise RuntimeError(f"worker failed to start: {line!r}\n{tail}")

    def readline(self, timeout):
        fd = self.proc.stdout.fileno()
        deadline = time.time() + timeout
        while b"\n" not in self.buf:
            left = deadline - time.time()
            if left <= 0:
                return None
            r, _, _ = select.select([fd], [], [], min(left, 1.0))
            if r:
                chunk = os.read(fd, 1 << 16)
                if not chunk:
                    return "" if not self.buf else self.buf.decode("utf8", "replace")
                self.buf += chunk
        line, self.buf = self.buf.split(b"\n", 1)
        return line.decode("utf8", "replace")

    def run(self, spec, hard_timeout):
        """-> record dict"""
        try:
            self.proc.stdin.write((json.dumps(spec) + "\n").encode())
            self.proc.stdin.flush()
        except (BrokenPipeError, OSError):
            self.restart()
            return {"id": spec["id"], "klass": spec.get("klass"), "status": "inconclusive", "reason": "worker pipe broken"}
        deadline = time.time() + hard_timeout
        while True:
            line = self.readline(max(0.0, deadline - time.time()))
            if line is None:
                self.restart()
                return {"id": spec["id"], "klass": spec.get("klass"), "status": "inconclusive", "reason": f"watchdog {hard_timeout}s", "watchdog": True}
            if line == "":
                rc = self.proc.poll()
                self.restart()
                return {"id": spec["id"], "klass": spec.get("klass"), "status": "inconclusive", "reason": f"worker died rc={rc}", "worker_died": True}
            if line.startswith("REC "):
                return json.loads(line[4:])

    def restart(self):
        self.close(kill=True)
        self.start()

    def close(self, kill=False):
        try:
            if kill:
                self.proc.kill()
            else:
                self.proc.stdin.close()
            self.proc.wait(timeout=10)
        except Exception:
            try:
                self.proc.kill()
            except Exception:
                pass
        try:
            self.errlog.close()
        except Exception:
            pass


def run_cases(prop, specs, jobs, budget_s, logdir, hashseed="0", progress=True):
    """Dispatch specs dynamically over `jobs` workers.  Specs with fill=True are skipped once
    the wall-clock budget is exhausted (enumerated classes always run completely)."""
    lock = threading.Lock()
    it = iter(specs)
    records = []
    t0 = time.time()
    stats = {"skipped_budget": 0}

    def next_spec():
        with lock:
            for s in it:
                if s.get("fill") and time.time() - t0 > budget_s:
                    stats["skipped_budget"] += 1
                    continue
                return s
            return None

    def loop(i):
        try:
            w = Worker(prop, i, logdir, hashseed)
        except Exception as exc:
            with lock:
                records.append({"id": f"worker{i}", "klass": "_machinery", "status": "inconclusive", "reason": str(exc)[:2000]})
            return
        try:
            while True:
                s = next_spec()
                if s is None:
                    break
                soft = float(s.get("soft_timeout", 90))
                rec = w.run(s, soft + 30)
                rec["spec"] = s
                with lock:
                    records.append(rec)
        finally:
            w.close()

    threads = [threading.Thread(target=loop, args=(i,), daemon=True) for i in range(jobs)]
    for th in threads:
        th.start()
    for th in threads:
        th.join()
    return records, stats


def load_known():
    path = os.path.join(env.VERIF, "known_findings.json")
    if not os.path.exists(path):
        return {"entries": []}
    return json.load(open(path))


def write_evidence(pid, ev):
    path = os.path.join(env.VERIF, "evidence", f"{pid}.json")
    os.makedirs(os.path.dirname(path), exist_ok=True)
    ok = True
    try:
        sys.path.append(env.DEPS)
        import jsonschema

        schema = json.load(open(os.path.join(env.VERIF, "schemas", "EVIDENCE.schema.json")))
        jsonschema.validate(ev, schema)
    except ImportError:
        ev.setdefault("coverage", {})["schema_validation"] = "jsonschema unavailable"
    except Exception as exc:
        ok = False
        print(f"evidence does not validate: {str(exc)[:400]}", file=sys.stderr)
    tmp = path + ".tmp"
    with open(tmp, "w") as fh:
        json.dump(ev, fh, indent=1, default=str)
    os.replace(tmp, path)
    return ok


def main(argv=None):
    argv = list(sys.argv[1:] if argv is None else argv)
    if not argv:
        print("usage: check <ID> [quick|thorough] [--replay PATH]", file=sys.stderr)
        return 2
    pid = argv[0].upper()
    tier = os.environ.get("VERIF_TIER", "quick")
    replay = None
    i = 1
    while i < len(argv):
        if argv[i] in ("quick", "thorough"):
            tier = argv[i]
        elif argv[i] == "--replay":
            replay = argv[i + 1]
            i += 1
        i += 1
    seed = int(os.environ.get("VERIF_SEED", "0") or 0)
    jobs = int(os.environ.get("VERIF_JOBS", "0") or 0) or min(16, os.cpu_count() or 4)
    ensure_deps()
    sys.path.append(env.DEPS)
    mod = importlib.import_module(f"vf.props.{pid.lower()}")
    t0 = time.time()
    work = tempfile.mkdtemp(prefix=f"gxverif-{pid}-")
    os.environ["VERIF_WORK"] = work
    try:
        if replay:
            return do_replay(pid, mod, replay, work)
        default_budget = getattr(mod, "BUDGET", {"quick": 60, "thorough": 480})[tier]
        budget = float(os.environ.get("VERIF_BUDGET_S", default_budget))
        specs = list(mod.plan(tier, seed))
        for k, s in enumerate(specs):
            s.setdefault("id", f"{pid}:{s.get('klass', 'case')}:{s.get('i', k)}")
            s["seed"] = seed
            s["tier"] = tier
        hashseed = getattr(mod, "HASHSEED", "0")
        if hasattr(mod, "run_all"):
            records, stats = mod.run_all(specs, tier, seed, jobs, budget, work)
        else:
            records, stats = run_cases(pid, specs, jobs, budget, work, hashseed)
        return finish(pid, mod, tier, seed, records, stats, time.time() - t0, len(specs))
    finally:
        shutil.rmtree(work, ignore_errors=True)


def finish(pid, mod, tier, seed, records, stats, wall, n_planned):
    known = load_known()
    if os.environ.get("VERIF_DUMP"):
        with open(os.environ["VERIF_DUMP"], "w") as fh:
            for r in records:
                fh.write(json.dumps(r, default=str) + "\n")
    open_ids = {e["id"]: e for e in known.get("entries", []) if e.get("status") == "open" and e.get("property") == pid}
    violations = []  # (record, violation)
    known_hits = {}
    for r in records:
        for v in r.get("violations", []) or []:
            fid = v.get("finding")
            if fid and fid in open_ids:
                known_hits.setdefault(fid, []).append((r, v))
            else:
                violations.append((r, v))
    coverage, assumptions, verdict = mod.summarise(records, tier, seed)
    inconc = [r for r in records if r.get("status") == "inconclusive"]
    coverage.setdefault("cases_planned", n_planned)
    coverage.setdefault("cases_run", len(records))
    coverage["cases_skipped_for_budget"] = stats.get("skipped_budget", 0)
    coverage["inconclusive_cases"] = len(inconc)
    reasons = {}
    for r in inconc:
        k = (r.get("reason") or "?")[:80]
        reasons[k] = reasons.get(k, 0) + 1
    coverage["inconclusive_reasons"] = dict(sorted(reasons.items(), key=lambda kv: -kv[1])[:8])
    coverage["known_findings_hit"] = {k: len(v) for k, v in known_hits.items()}
    ctot, att = {}, {}
    for r in records:
        for k, v in (r.get("contracts") or {}).items():
            ctot[k] = ctot.get(k, 0) + v
        att.update(r.get("contracts_attached") or {})
    coverage["in_flight_contract_evaluations"] = ctot
    coverage["in_flight_contracts_attached_sites"] = att
    # replay files for unlisted violations, one per distinct class
    printed = []
    seen_cls = set()
    rdir = os.path.join(env.VERIF, "replays", pid)
    for r, v in violations:
        cls = v.get("kind", "violation")
        key = (cls, v.get("subkind"))
        if key in seen_cls:
            continue
        seen_cls.add(key)
        os.makedirs(rdir, exist_ok=True)
        body = {"property": pid, "spec": r.get("spec"), "violation": v, "model_text": r.get("model_text"), "record_id": r.get("id")}
        h = hashlib.sha256(json.dumps(body, sort_keys=True, default=str).encode()).hexdigest()[:12]
        path = os.path.join(rdir, f"{h}.json")
        with open(path, "w") as fh:
            json.dump(body, fh, indent=1, default=str)
        printed.append((cls, path, v))
    ev = {
        "property_id": pid,
        "tier": tier,
        "seed": seed,
        "level": getattr(mod, "LEVEL", "exploration"),
        "coverage": coverage,
        "assumptions": assumptions,
        "wall_s": round(wall, 2),
        "violations": len(violations),
    }
    ok_schema = write_evidence(pid, ev)
    for fid, hits in sorted(known_hits.items()):
        e = open_ids[fid]
        print(f"KNOWN-FINDING: property={pid} id={fid} cases={len(hits)} {e.get('mechanism', '')}")
    if violations:
        for cls, path, v in printed[:10]:
            print(f"VIOLATION property={pid} replay={path}")
            print(f"  class={cls} {json.dumps(v.get('detail', {}), default=str)[:600]}")
        print(f"{pid} {tier}: {len(violations)} violating observations in {len(seen_cls)} classes; evidence/{pid}.json")
        return 1
    machinery = [r for r in records if r.get("klass") == "_machinery"]
    if machinery:
        print(f"INCONCLUSIVE property={pid} reason=machinery error: {machinery[0].get('reason', '')[:300]}")
        return 2
    if verdict.get("inconclusive"):
        print(f"INCONCLUSIVE property={pid} reason={verdict['inconclusive']}")
        return 2
    if not ok_schema:
        print(f"INCONCLUSIVE property={pid} reason=evidence file does not validate")
        return 2
    print(f"{pid} {tier}: held on {coverage.get('distinct_nontrivial')} distinct non-trivial cases of {coverage.get('evaluations')} evaluations ({round(wall, 1)} s); evidence/{pid}.json")
    return 0


def do_replay(pid, mod, path, work):
    body = json.load(open(path))
    spec = body["spec"]
    env.prepare()
    rec = mod.run_case(spec, {})
    known = load_known()
    open_ids = {e["id"] for e in known.get("entries", []) if e.get("status") == "open" and e.get("property") == pid}
    bad = [v for v in rec.get("violations", []) or [] if not (v.get("finding") in open_ids)]
    print(json.dumps({k: rec.get(k) for k in ("id", "status", "reason", "counters")}, default=str)[:1500])
    for v in rec.get("violations", []) or []:
        print(("VIOLATION" if v in bad else "KNOWN-FINDING:") + f" property={pid} replay={path}")
        print("  " + json.dumps(v, default=str)[:1500])
    return 1 if bad else 0


if __name__ == "__main__":
    sys.exit(main())
