"""Executor for generated Python (numpy / jax) modules, with a recorder at the function boundary."""
from __future__ import annotations

import warnings

import numpy as np


class CallRecord:
    __slots__ = ("fn", "out", "exc", "warn", "mutated")

    def __init__(self, fn):
        self.fn = fn
        self.out = None
        self.exc = None
        self.warn = 0
        self.mutated = False


class PyModule:
    """exec() of generated source; all access goes through the module's own index maps."""

    RHS_LIKE = ("rhs", "monitor_values", "missing_values")

    def __init__(self, code: str, backend="numpy"):
        self.source = code
        self.backend = backend
        self.ns = {"__name__": "generated_model"}
        exec(compile(code, "<generated>", "exec"), self.ns)
        self.calls = 0

    def has(self, fn):
        return callable(self.ns.get(fn))

    def names(self, kind):
        return dict(self.ns.get(kind, {}))

    def index(self, kind, name):
        return self.ns[f"{kind}_index"](name)

    def arrays(self, point, missing=None):
        st = self.names("state")
        pa = self.names("parameter")
        s = np.zeros(len(st), dtype=np.float64)
        p = np.zeros(len(pa), dtype=np.float64)
        for n, i in st.items():
            s[i] = point[n]
        for n, i in pa.items():
            p[i] = point[n]
        m = None
        mi = self.names("missing")
        if mi:
            m = np.zeros(len(mi), dtype=np.float64)
            for n, i in mi.items():
                m[i] = (missing or point)[n]
        return s, p, m

    def call(self, fn, point, dt=None, missing=None, raw=None) -> CallRecord:
        """Call generated function `fn` at a named point; t/dt are passed as numpy.float64."""
        rec = CallRecord(fn)
        f = self.ns[fn]
        if raw is not None:
            s, p, m, t = raw
        else:
            s, p, m = self.arrays(point, missing)
            t = np.float64(point["t"])
        before = (s.tobytes(), p.tobytes(), None if m is None else m.tobytes())
        if dt is None:
            args = [t, s, p]
        else:
            args = [s, t, np.float64(dt) if not isinstance(dt, np.ndarray) else dt, p]
        if m is not None:
            args.append(m)
        self.calls += 1
        with warnings.catch_warnings(record=True) as w:
            warnings.simplefilter("always")
            try:
                with np.errstate(all="warn"):
                    out = f(*args)
                rec.out = np.asarray(out)
            except Exception as exc:  # the event "function raises"
                rec.exc = exc
        rec.warn = len(w)
        after = (s.tobytes(), p.tobytes(), None if m is None else m.tobytes())
        rec.mutated = before != after
        return rec
