"""C executor: compile the generated translation unit (default-mode compile check with gcc and
clang, clang ASan+UBSan build, gcc -O2 build) and run it through driver.c."""
from __future__ import annotations

import os
import re
import shutil
import subprocess
import tempfile

HERE = os.path.dirname(os.path.abspath(__file__))
DRIVER = os.path.join(HERE, "driver.c")
SAN_FLAGS = ["-O1", "-g", "-fsanitize=address,undefined", "-fno-omit-frame-pointer", "-fno-sanitize-recover=signed-integer-overflow,shift,integer-divide-by-zero,bounds,null"]


def fhex(x) -> str:
    return float(x).hex()


class CallResult:
    __slots__ = ("fn", "out", "canary", "inputs_changed", "aborted", "report")

    def __init__(self, fn):
        self.fn = fn
        self.out = None
        self.canary = []
        self.inputs_changed = False
        self.aborted = False
        self.report = ""


class CModule:
    """`fns`: list of (name, kind, order) with kind in {"rhs", "scheme"}; order e.g. "tsp" / "stdp"."""

    def __init__(self, code: str, fns, counts, workdir=None, n_missing_in=0, n_missing_out=0):
        self.code = code
        self.fns = list(fns)
        self.counts = counts  # reference counts: states, parameters, monitored
        self.nmi = n_missing_in
        self.nmo = n_missing_out
        self.dir = tempfile.mkdtemp(prefix="cmod-", dir=workdir or os.environ.get("VERIF_WORK"))
        self.diag = {}
        self.bins = {}
        with open(os.path.join(self.dir, "model.c"), "w") as fh:
            fh.write(code)
        with open(os.path.join(self.dir, "wrap.h"), "w") as fh:
            fh.write(self._wrap())
        shutil.copy(DRIVER, os.path.join(self.dir, "driver.c"))

    def close(self):
        shutil.rmtree(self.dir, ignore_errors=True)

    def _wrap(self):
        lines = ["static void call_fn(int fn, double t, double dt, double *s, double *p, double *m, double *v) {", "  (void)m; (void)dt;", "  switch (fn) {"]
        for i, (name, kind, order) in enumerate(self.fns):
            amap = {"s": "s", "t": "t", "p": "p", "d": "dt"}
            args = [amap[ch] for ch in order] + ["v"]
            lines.append(f"    case {i}: {name}({', '.join(args)}); break;")
        lines += ["    default: break;", "  }", "}"]
        lines.append("static int n_out(int fn, int ns, int np, int nmon, int nmo) { (void)np; (void)nmo;")
        lines.append("  switch (fn) {")
        for i, (name, kind, order) in enumerate(self.fns):
            n = "nmon" if name == "monitor_values" else ("nmo" if name == "missing_values" else "ns")
            lines.append(f"    case {i}: return {n};")
        lines += ["    default: return ns;", "  }", "}"]
        return "\n".join(lines) + "\n"

    # ------------------------------------------------------------------ builds
    def _cc(self, argv, timeout=120):
        p = subprocess.run(argv, cwd=self.dir, capture_output=True, text=True, timeout=timeout)
        return p.returncode, p.stderr

    def compile_check(self):
        """Default-mode compile of the generated file alone with both compilers."""
        out = {}
        for cc in ("gcc", "clang"):
            rc, err = self._cc([cc, "-c", "-Wall", "model.c", "-o", f"model_{cc}.o"])
            errors = [l for l in err.splitlines() if re.search(r"\berror\b", l)]
            warnings = [l for l in err.splitlines() if "warning:" in l]
            out[cc] = {"rc": rc, "errors": errors[:5], "n_warnings": len(warnings), "warnings": sorted({re.sub(r".*warning: ", "", w)[:100] for w in warnings})[:5]}
        self.diag["compile"] = out
        return out

    def build(self, which=("asan", "gcc")):
        defs = ['-DMODEL_FILE="model.c"', '-DWRAP_FILE="wrap.h"']
        res = {}
        if "asan" in which:
            rc, err = self._cc(["clang"] + SAN_FLAGS + defs + ["driver.c", "-lm", "-o", "drv_asan"])
            res["asan"] = (rc, err[-1500:])
            if rc == 0:
                self.bins["asan"] = os.path.join(self.dir, "drv_asan")
        if "gcc" in which:
            rc, err = self._cc(["gcc", "-O2"] + defs + ["driver.c", "-lm", "-o", "drv_gcc"])
            res["gcc"] = (rc, err[-1500:])
            if rc == 0:
                self.bins["gcc"] = os.path.join(self.dir, "drv_gcc")
        self.diag["build"] = {k: {"rc": v[0], "err": v[1][-600:] if v[0] else ""} for k, v in res.items()}
        return res

    # -------------------------------------------------------------------- runs
    def _header(self):
        c = self.counts
        return f"H {c['states']} {c['parameters']} {c['monitored']} {self.nmi} {self.nmo}\n"

    def run(self, build, requests, timeout=120):
        """requests: list of tuples
             ("C", fn_index, t, dt, states[], params[], missing[])
             ("I", which)      ("N", kind, name)
        -> (results list aligned with requests, info dict)"""
        exe = self.bins[build]
        env = dict(os.environ)
        env["ASAN_OPTIONS"] = "detect_leaks=0:abort_on_error=0:halt_on_error=1:exitcode=66"
        env["UBSAN_OPTIONS"] = "print_stacktrace=0:halt_on_error=0"
        results = [None] * len(requests)
        info = {"consts": None, "ubsan_reports": 0, "asan_reports": 0, "ubsan_first": "", "processes": 0}
        start = 0
        while start < len(requests):
            lines = [self._header()]
            for r in requests[start:]:
                if r[0] == "C":
                    _, fn, t, dt, s, p, m = r
                    lines.append("C %d %s %s %s\n" % (fn, fhex(t), fhex(dt), " ".join(fhex(x) for x in list(s) + list(p) + list(m or []))))
                elif r[0] == "I":
                    lines.append(f"I {r[1]}\n")
                else:
                    nm = r[2] if r[2] != "" else "<empty>"
                    lines.append(f"N {r[1]} {nm}\n")
            info["processes"] += 1
            try:
                p = subprocess.run([exe], input="".join(lines), capture_output=True, text=True, timeout=timeout, env=env, cwd=self.dir)
            except subprocess.TimeoutExpired:
                info["timeout"] = True
                break
            k = start
            cur = None
            done = False
            for ln in p.stdout.splitlines():
                if ln.startswith("CONST"):
                    info["consts"] = [int(x) for x in ln.split()[1:]]
                elif ln.startswith("BEGIN"):
                    cur = CallResult(requests[k][1] if requests[k][0] == "C" else 100 + requests[k][1])
                    cur.out = []
                    results[k] = cur
                elif ln.startswith("V "):
                    _, i, val = ln.split()
                    if val == "CANARY":
                        cur.canary.append(int(i))
                        cur.out.append(float("nan"))
                    else:
                        cur.out.append(float.fromhex(val))
                elif ln == "INPUTS_CHANGED":
                    cur.inputs_changed = True
                elif ln.startswith("END"):
                    k += 1
                    cur = None
                elif ln.startswith("IDX"):
                    results[k] = int(ln.split()[2])
                    k += 1
                elif ln == "DONE":
                    done = True
            ub = [l for l in p.stderr.splitlines() if "runtime error:" in l]
            info["ubsan_reports"] += len(ub)
            if ub and not info["ubsan_first"]:
                info["ubsan_first"] = ub[0][-300:]
            if done:
                break
            # the process died inside request k (sanitizer abort or crash)
            if cur is not None:
                cur.aborted = True
                cur.report = p.stderr[-1200:]
                cur.out = None
                if "AddressSanitizer" in p.stderr:
                    info["asan_reports"] += 1
                start = k + 1
            else:
                info["crash"] = f"rc={p.returncode} {p.stderr[-300:]}"
                break
        return results, info
