"""Fresh-interpreter child for C09: load a model text, optionally run a history of other calls first,
generate code and print hashes.  Run as:  PYTHONHASHSEED=k python -m vf.exec.fresh  < job.json"""
from __future__ import annotations

import hashlib
import json
import sys


def sha(s: str) -> str:
    return hashlib.sha256(s.encode()).hexdigest()


def do_history(ops, ode_from_string):
    import warnings

    warnings.simplefilter("ignore")
    from gotranx.cli import gotran2c, gotran2py
    from gotranx.codegen.c import Format as CF
    from gotranx.codegen.python import Format as PF
    from gotranx.schemes import Scheme, get_scheme

    for op in ops:
        try:
            k = op["op"]
            if k == "load_generate":
                o = ode_from_string(op["text"])
                kw = {}
                if op.get("shape"):
                    from gotranx.codegen.base import Shape

                    kw["shape"] = Shape(op["shape"])
                if op.get("jax"):
                    kw["backend"] = gotran2py.Backend("jax")
                gotran2py.get_code(o, format=PF.none, scheme=[Scheme(s) for s in op.get("schemes", [])] or None, stiff_states=[s.name for s in o.states][:1], remove_unused=bool(op.get("remove_unused")), **kw)
                if op.get("c"):
                    gotran2c.get_code(o, format=CF.none)
            elif k == "get_scheme":
                get_scheme(op["name"])
            elif k == "simplify":
                ode_from_string(op["text"]).simplify()
            elif k == "remove_singularities":
                ode_from_string(op["text"]).remove_singularities()
        except Exception:
            pass


def count_rounding_nodes(ode, name):
    """floor / ceiling nodes left in the symbolic stage of `name` and of everything it depends on"""
    import sympy

    seen, todo, n = set(), [name], 0
    while todo:
        k = todo.pop()
        if k in seen:
            continue
        seen.add(k)
        try:
            ex = ode[k].expr
        except Exception:
            continue
        n += len(ex.atoms(sympy.floor)) + len(ex.atoms(sympy.ceiling))
        for s_ in ex.free_symbols:
            if s_.name in ode._lookup and hasattr(ode._lookup[s_.name], "expr"):
                todo.append(s_.name)
    return n


def closure_srepr(ode, name):
    """sha of the symbolic stage (srepr) of `name` and of everything it depends on"""
    import sympy

    seen, todo, parts = set(), [name], []
    while todo:
        k = todo.pop()
        if k in seen:
            continue
        seen.add(k)
        try:
            ex = ode[k].expr
        except Exception:
            continue
        parts.append(k + "=" + sympy.srepr(ex))
        for s_ in ex.free_symbols:
            if s_.name in ode._lookup and hasattr(ode._lookup[s_.name], "expr"):
                todo.append(s_.name)
    return sha("|".join(sorted(parts)))


def main():
    job = json.load(sys.stdin)
    import os

    sys.path.insert(0, os.path.join(os.environ.get("VERIF_REPO", "/repo"), "src"))
    import logging
    import warnings

    warnings.simplefilter("ignore")
    import structlog

    import gotranx  # noqa

    structlog.configure(wrapper_class=structlog.make_filtering_bound_logger(logging.CRITICAL))
    from gotranx.cli import gotran2c, gotran2py
    from gotranx.codegen.c import Format as CF
    from gotranx.codegen.python import Format as PF
    from gotranx.load import ode_from_string
    from gotranx.schemes import Scheme

    do_history(job.get("history", []), ode_from_string)
    ode = ode_from_string(job["text"])
    if job.get("sub"):
        comp = ode.get_component(job["sub"].lstrip("-"))
        ode = (ode - comp) if job["sub"].startswith("-") else comp.to_ode()
    if job.get("try_matrices"):
        from gotranx import sympytools

        res = {}
        for fn in ("states_matrix", "rhs_matrix", "jacobi_matrix"):
            try:
                getattr(sympytools, fn)(ode)
                res[fn] = "ok"
            except Exception as exc:
                res[fn] = f"{type(exc).__name__}: {exc}"[:200]
        print("RESULT " + json.dumps({"matrices": res}))
        return
    if job.get("count_rounding_nodes_of"):
        print("RESULT " + json.dumps({"count": count_rounding_nodes(ode, job["count_rounding_nodes_of"]), "srepr": closure_srepr(ode, job["count_rounding_nodes_of"])}))
        return
    out = {"sha": {}, "code": {}, "errors": {}}
    out["sorted_states"] = [s.name for s in ode.sorted_states()]
    out["sorted_assignments"] = [a.name for a in ode.sorted_assignments()]
    # the hidden schedule actually taken: iteration order of every dependency set
    orders = []
    for a in sorted(ode.intermediates + ode.state_derivatives, key=lambda x: x.name):
        orders.append(",".join(a.value.dependencies))
    out["dependency_order_vector"] = sha("|".join(orders))[:16]
    out["component_order"] = [c.name for c in ode.components]
    if job.get("sub"):
        out["missing_variables"] = sorted(ode.missing_variables.items(), key=lambda kv: kv[1])
    shared_lists = {}  # the caller's option objects are reused between calls, as a program generating several targets does
    for req in job["requests"]:
        key = req["key"]
        try:
            sch = [Scheme(s) for s in req.get("schemes", [])] or None
            kw = {}
            if req.get("stiff_first"):
                names = tuple(s.name for s in ode.states)[: req["stiff_first"]]
                kw["stiff_states"] = shared_lists.setdefault(names, list(names))
            for rep in range(2 if req.get("repeat") else 1):
                if req["backend"] == "c":
                    code = gotran2c.get_code(ode, scheme=sch, format=CF.none, remove_unused=req.get("remove_unused", False), **kw)
                else:
                    code = gotran2py.get_code(ode, scheme=sch, format=PF.none, remove_unused=req.get("remove_unused", False), backend=gotran2py.Backend(req["backend"]), **kw)
                if kw and tuple(kw["stiff_states"]) != names:
                    out["errors"][key] = f"the caller's stiff_states list was modified: {names} -> {kw['stiff_states']}"
                    shared_lists[names] = kw["stiff_states"] = list(names)
                if rep == 1 and sha(code) != out["sha"][key]:
                    out["errors"][key] = "repetition in the same process changed the output"
                out["sha"][key] = sha(code)
            if job.get("keep_code"):
                out["code"][key] = code
        except Exception as exc:
            out["errors"][key] = f"{type(exc).__name__}: {exc}"[:200]
    print("RESULT " + json.dumps(out))


if __name__ == "__main__":
    main()
