"""One surface over the three back ends: generate code through the public get_code functions,
load it (exec / compile+driver) and run named calls; every access is by name through the
generated module's own index maps."""
from __future__ import annotations

import re

import numpy as np

from ..props import common as C
from .cexec import CModule
from .pyexec import PyModule

SCHEME_ALIASES = {
    "explicit_euler": "explicit_euler",
    "forward_explicit_euler": "explicit_euler",
    "generalized_rush_larsen": "generalized_rush_larsen",
    "forward_generalized_rush_larsen": "generalized_rush_larsen",
    "hybrid_rush_larsen": "hybrid_rush_larsen",
}
RHS_FNS = ("rhs", "monitor_values", "missing_values")


class Result:
    __slots__ = ("out", "exc", "mutated", "canary", "san", "shape", "dtype")

    def __init__(self):
        self.out = None
        self.exc = None
        self.mutated = False
        self.canary = []
        self.san = None
        self.shape = None
        self.dtype = None


def generate(backend, ode, schemes=None, **opts) -> C.Outcome:
    if backend == "c":
        return C.c_code(ode, schemes=schemes, **opts)
    return C.py_code(ode, schemes=schemes, backend=backend, **opts)


class PyBackendModule:
    def __init__(self, code, backend):
        self.backend = backend
        self.m = PyModule(code, backend)
        self.code = code

    def functions(self):
        return [k for k, v in self.m.ns.items() if callable(v) and not k.startswith("_") and getattr(v, "__module__", "generated_model") in ("generated_model", None)]

    def has(self, fn):
        return self.m.has(fn)

    def maps(self, ref=None):
        return {k: self.m.names(k) for k in ("state", "parameter", "monitor", "missing")}

    def consts(self):
        return None

    def run(self, calls):
        out = []
        for fn, pt, dt, ms in calls:
            r = Result()
            if fn in ("init_state_values", "init_parameter_values"):
                try:
                    v = self.m.ns[fn](**(pt or {}))
                    a = np.asarray(v)
                    r.out, r.shape, r.dtype = [float(x) for x in a.ravel()], tuple(a.shape), str(a.dtype)
                except Exception as exc:
                    r.exc = f"{type(exc).__name__}: {exc}"[:300]
                out.append(r)
                continue
            rec = self.m.call(fn, pt, dt=dt, missing=ms)
            if rec.exc is not None:
                r.exc = f"{type(rec.exc).__name__}: {rec.exc}"[:300]
            else:
                a = np.asarray(rec.out)
                r.shape, r.dtype = tuple(a.shape), str(a.dtype)
                r.out = [float(x) for x in a.ravel()]
            r.mutated = rec.mutated
            out.append(r)
        return out

    def close(self):
        pass


class CBackendModule:
    def __init__(self, code, ref, n_missing_out=0):
        self.backend = "c"
        self.code = code
        self.ref = ref
        names = re.findall(r"^void (\w+)\(([^)]*)\)", code, flags=re.M)
        self.fns = []
        self.sig = {}
        for n, args in names:
            if n in ("init_state_values", "init_parameter_values"):
                continue
            order = self._order(args)
            if order is None:
                continue
            self.fns.append((n, "rhs" if n in RHS_FNS else "scheme", order))
            self.sig[n] = args
        self.cm = CModule(code, self.fns, ref.counts(), n_missing_out=n_missing_out)
        self.diag = self.cm.compile_check()
        self.compile_errors = [(cc, d["errors"]) for cc, d in self.diag.items() if d["rc"] != 0]
        self.built = False
        self._maps = None
        self.info = {}

    @staticmethod
    def _order(args):
        o = ""
        for a in args.split(","):
            a = a.strip()
            if a.endswith(" states"):
                o += "s"
            elif a.endswith(" parameters"):
                o += "p"
            elif a.endswith(" dt"):
                o += "d"
            elif a.endswith(" t"):
                o += "t"
            elif a.endswith("values"):
                pass
            else:
                return None
        return o

    def build(self, which=("asan", "gcc")):
        b = self.cm.build(which)
        self.built = all(v[0] == 0 for v in b.values())
        self.build_err = "; ".join(v[1][-300:] for v in b.values() if v[0] != 0)
        return self.built

    def has(self, fn):
        return any(f[0] == fn for f in self.fns)

    def functions(self):
        return [f[0] for f in self.fns]

    def maps(self, ref=None):
        if self._maps is None:
            ref = ref or self.ref
            sn, pn, mn = list(ref.states), list(ref.params), list(ref.assigns)
            reqs = [("N", 0, n) for n in sn] + [("N", 1, n) for n in pn] + [("N", 2, n) for n in mn]
            r, info = self.cm.run("gcc" if "gcc" in self.cm.bins else next(iter(self.cm.bins)), reqs)
            self.info["consts"] = info["consts"]
            self._maps = {
                "state": dict(zip(sn, r[: len(sn)])),
                "parameter": dict(zip(pn, r[len(sn) : len(sn) + len(pn)])),
                "monitor": dict(zip(mn, r[len(sn) + len(pn) :])),
                "missing": {},
            }
        return self._maps

    def consts(self):
        self.maps()
        return self.info.get("consts")

    def run(self, calls, build="asan"):
        mp = self.maps()
        reqs = []
        fidx = {f[0]: i for i, f in enumerate(self.fns)}
        ns, npar = len(self.ref.states), len(self.ref.params)
        for fn, pt, dt, ms in calls:
            if fn == "init_state_values":
                reqs.append(("I", 0))
                continue
            if fn == "init_parameter_values":
                reqs.append(("I", 1))
                continue
            s = [0.0] * ns
            p = [0.0] * npar
            for n, i in mp["state"].items():
                if 0 <= i < ns:
                    s[i] = pt[n]
            for n, i in mp["parameter"].items():
                if 0 <= i < npar:
                    p[i] = pt[n]
            reqs.append(("C", fidx[fn], pt["t"], 0.0 if dt is None else dt, s, p, []))
        res, info = self.cm.run(build, reqs)
        self.info[build] = info
        out = []
        for cr in res:
            r = Result()
            if cr is None:
                r.exc = "driver: no result (" + str(info.get("crash") or info.get("timeout") or "?")[:200] + ")"
            elif cr.aborted:
                r.san = cr.report[-800:]
                r.exc = "sanitizer abort"
            else:
                r.out = list(cr.out)
                r.shape = (len(cr.out),)
                r.canary = list(cr.canary)
                r.mutated = cr.inputs_changed
            out.append(r)
        return out

    def close(self):
        self.cm.close()


def open_module(backend, code, ref):
    if backend == "c":
        return CBackendModule(code, ref)
    return PyBackendModule(code, backend)
