/* Generic driver for a generated gotranx C translation unit.
 *
 * Built by the harness as:   cc [sanitizer flags] -DMODEL_FILE='"model.c"' -DWRAP_FILE='"wrap.h"' driver.c -lm
 * wrap.h (written by the harness for the argument order under test) defines
 *   N_FN, and  static void call_fn(int fn, double t, double dt, double *s, double *p, double *m, double *v)
 *   static int n_out(int fn, int ns, int np, int nmon, int nmiss_out)
 *
 * Protocol (stdin, text, hex floats):
 *   H ns np nmon nmiss_in nmiss_out
 *   C fn t dt  s_0..s_{ns-1}  p_0..p_{np-1}  m_0..m_{nmiss_in-1}      -> call function fn
 *   I which                                                           -> init_state_values (0) / init_parameter_values (1)
 *   N kind name                                                       -> index lookup, kind 0 state, 1 parameter, 2 monitor
 * Every output buffer is a fresh exact-size heap allocation pre-filled with a canary NaN, so ASan sees any
 * out-of-range slot and an unwritten slot is reported as CANARY.
 */
#include <stdio.h>
#include <stdlib.h>
#include <string.h>
#include <stdint.h>

#include MODEL_FILE
#include WRAP_FILE

static const uint64_t CANARY = 0x7ff4dead0000beefULL;

static double *alloc_exact(int n) {
  double *p = (double *)malloc(n > 0 ? (size_t)n * sizeof(double) : 1);
  if (!p) { fprintf(stderr, "malloc failed\n"); exit(3); }
  return p;
}

static void fill_canary(double *v, int n) {
  for (int i = 0; i < n; i++) memcpy(&v[i], &CANARY, 8);
}

static void print_out(const double *v, int n) {
  for (int i = 0; i < n; i++) {
    uint64_t bits;
    memcpy(&bits, &v[i], 8);
    if (bits == CANARY) printf("V %d CANARY\n", i);
    else printf("V %d %a\n", i, v[i]);
  }
}

int main(void) {
  int ns = 0, np = 0, nmon = 0, nmi = 0, nmo = 0;
  char tag[8];
  int k = 0;
  printf("CONST %d %d %d\n", NUM_STATES, NUM_PARAMS, NUM_MONITORED);
  fflush(stdout);
  while (scanf("%7s", tag) == 1) {
    if (tag[0] == 'H') {
      if (scanf("%d %d %d %d %d", &ns, &np, &nmon, &nmi, &nmo) != 5) return 4;
    } else if (tag[0] == 'C') {
      int fn; double t, dt;
      char buf[64];
      if (scanf("%d", &fn) != 1) return 4;
      if (scanf("%63s", buf) != 1) return 4; t = strtod(buf, NULL);
      if (scanf("%63s", buf) != 1) return 4; dt = strtod(buf, NULL);
      double *s = alloc_exact(ns), *p = alloc_exact(np), *m = alloc_exact(nmi);
      double *s0 = alloc_exact(ns), *p0 = alloc_exact(np), *m0 = alloc_exact(nmi);
      for (int i = 0; i < ns; i++) { if (scanf("%63s", buf) != 1) return 4; s[i] = strtod(buf, NULL); }
      for (int i = 0; i < np; i++) { if (scanf("%63s", buf) != 1) return 4; p[i] = strtod(buf, NULL); }
      for (int i = 0; i < nmi; i++) { if (scanf("%63s", buf) != 1) return 4; m[i] = strtod(buf, NULL); }
      memcpy(s0, s, (size_t)ns * 8); memcpy(p0, p, (size_t)np * 8); memcpy(m0, m, (size_t)nmi * 8);
      int no = n_out(fn, ns, np, nmon, nmo);
      double *v = alloc_exact(no);
      fill_canary(v, no);
      printf("BEGIN %d %d\n", k, fn);
      fflush(stdout);
      call_fn(fn, t, dt, s, p, m, v);
      print_out(v, no);
      if (memcmp(s0, s, (size_t)ns * 8) || memcmp(p0, p, (size_t)np * 8) || memcmp(m0, m, (size_t)nmi * 8)) printf("INPUTS_CHANGED\n");
      printf("END %d\n", k);
      fflush(stdout);
      free(s); free(p); free(m); free(s0); free(p0); free(m0); free(v);
      k++;
    } else if (tag[0] == 'I') {
      int which;
      if (scanf("%d", &which) != 1) return 4;
      int no = which == 0 ? ns : np;
      double *v = alloc_exact(no);
      fill_canary(v, no);
      printf("BEGIN %d %d\n", k, 100 + which);
      fflush(stdout);
      if (which == 0) init_state_values(v); else init_parameter_values(v);
      print_out(v, no);
      printf("END %d\n", k);
      fflush(stdout);
      free(v);
      k++;
    } else if (tag[0] == 'N') {
      int kind; char name[256];
      if (scanf("%d %255s", &kind, name) != 2) return 4;
      if (strcmp(name, "<empty>") == 0) name[0] = 0;
      int r = kind == 0 ? state_index(name) : kind == 1 ? parameter_index(name) : monitor_index(name);
      printf("IDX %d %d\n", kind, r);
      fflush(stdout);
    } else {
      return 5;
    }
  }
  printf("DONE\n");
  return 0;
}
