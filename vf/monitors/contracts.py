"""In-flight contracts on the real internal functions (icontract), attached from the harness.

Secondary monitors: they run inside every workload of every check, fire earlier than the boundary
oracles and localise a disagreement to a stage.  A contract never raises into gotranx: every
condition records into COUNTERS / FAILURES and returns True, so the behaviour under observation is
unchanged.  If an attach point disappears (refactor) the contract is reported 'not attached' and
the boundary oracle still decides the property.
"""
from __future__ import annotations

import sys

COUNTERS: dict = {}
FAILURES: list = []
ATTACHED: dict = {}


def _count(k):
    COUNTERS[k] = COUNTERS.get(k, 0) + 1


def _fail(k, detail):
    _count(k + ":failed")
    if len(FAILURES) < 20:
        FAILURES.append({"contract": k, "detail": detail if isinstance(detail, dict) else str(detail)[:400]})


# ---------------------------------------------------------------- conditions (named functions)

def k1_sorted_is_topological(assignments, assignments_only, result):
    """K1 ode.sort_assignments: with assignments_only the result is a permutation of the input names and
    every name comes after all of its dependencies that are themselves in the input."""
    try:
        _count("K1")
        items = list(assignments)
        names = [a.name for a in items]
        if assignments_only:
            if sorted(result) != sorted(set(names)):
                _fail("K1", f"not a permutation: {sorted(result)[:6]} vs {sorted(set(names))[:6]}")
                return True
        pos = {n: i for i, n in enumerate(result)}
        for a in items:
            for d in a.value.dependencies:
                if d in pos and d != a.name and pos[d] > pos[a.name]:
                    _fail("K1", f"{a.name} is emitted before its dependency {d}")
                    return True
    except Exception as exc:  # a contract must never disturb the code under observation
        _count("K1:error")
    return True


def k4_remove_unused_is_a_filter(self, assignments_only, remove_unused, result):
    """K4 ODE.sorted_assignments(remove_unused=True): a subsequence-by-name of the unfiltered result, every state
    derivative kept, every dropped atom an Intermediate that no kept atom mentions."""
    try:
        if not remove_unused or not assignments_only:
            return True
        _count("K4")
        from gotranx import atoms

        kept = [a.name for a in result]
        full = self.intermediates + self.state_derivatives
        dropped = [a for a in full if a.name not in set(kept)]
        for a in dropped:
            if not isinstance(a, atoms.Intermediate) or isinstance(a, atoms.StateDerivative):
                _fail("K4", f"dropped {a.name} which is not an intermediate")
                return True
        used = set()
        for a in result:
            used |= set(a.value.dependencies)
        for a in dropped:
            if a.name in used:
                _fail("K4", f"dropped {a.name} although a kept assignment mentions it")
                return True
    except Exception:
        _count("K4:error")
    return True


def k5_missing_variables(self, result):
    """K5 ODE.missing_variables: keys = (all dependencies) - (defined names, t, time); values are 0..n-1 in sorted key order."""
    try:
        _count("K5")
        used = set()
        for comp in self.components:
            for a in comp.assignments:
                if a.value is not None:
                    used |= set(a.value.dependencies)
        defined = {x.name for x in self.states + self.parameters + self.intermediates + self.state_derivatives} | {"t", "time"}
        want = sorted(used - defined)
        if sorted(result) != want or [result[k] for k in want] != list(range(len(want))):
            _fail("K5", f"missing_variables {result} vs expected names {want}")
    except Exception:
        _count("K5:error")
    return True


def k6_scheme_named(scheme, result):
    """K6 schemes.get_scheme(s): the returned function's __code__.co_name is s."""
    try:
        _count("K6")
        if result.__code__.co_name != scheme:
            _fail("K6", f"get_scheme({scheme!r}) returned a function named {result.__code__.co_name!r}")
    except Exception:
        _count("K6:error")
    return True


def k8_rhs_matrix_expanded(ode, result):
    """K8 sympytools.rhs_matrix: no intermediate symbol is free in the result; one row per state in sorted_states order."""
    try:
        _count("K8")
        inter = {x.symbol for x in tuple(ode.intermediates) + tuple(ode.state_derivatives)}
        left = result.free_symbols & inter
        if left:
            _fail("K8", f"intermediates left in rhs_matrix: {sorted(map(str, left))[:5]}")
        if result.shape[0] != len(ode.sorted_states()):
            _fail("K8", f"rhs_matrix has {result.shape[0]} rows for {len(ode.sorted_states())} states")
    except Exception:
        _count("K8:error")
    return True


def k3_no_clashing_definitions(result):
    """K3 ode.make_ode: if it returns, no name is carried by atoms of two kinds, and no two atoms with the same
    name differ in value / resolved expression."""
    try:
        _count("K3")
        seen = {}
        for kind, items in (("state", result.states), ("parameter", result.parameters), ("intermediate", result.intermediates), ("derivative", result.state_derivatives)):
            for a in items:
                val = getattr(a, "expr", None) if kind in ("intermediate", "derivative") else getattr(a, "value", None)
                seen.setdefault(a.name, []).append((kind, str(val)))
        for n, lst in seen.items():
            if len({k for k, _ in lst}) > 1:
                _fail("K3", f"{n} is defined as {sorted({k for k, _ in lst})}")
                return True
            if len({v for _, v in lst}) > 1:
                _fail("K3", f"{n} has {len({v for _, v in lst})} different definitions: {sorted({v for _, v in lst})[:2]}")
                return True
    except Exception:
        _count("K3:error")
    return True


def k7_singularities_removed(expr, singularities, result):
    """K7 atoms.remove_singularities: at regular points the result equals expr; at each finite singular value it
    equals that singularity's replacement (numerically, 30 digits)."""
    try:
        import random

        import sympy

        _count("K7")
        fin = [s for s in singularities if not s.is_infinite]
        syms = sorted(expr.free_symbols, key=str)
        rnd = random.Random(len(str(expr)))
        grid = [0.3125, -0.4375, 1.1875, 2.3125, -1.6875, 0.8125]

        def num(e, sub):
            v = sympy.N(e.subs(sub), 30)
            return complex(v) if v.is_number and v.is_finite else None

        bad_vals = {float(s.value) for s in fin if s.value.is_number}
        for _ in range(4):
            sub = {x: sympy.Float(rnd.choice([g for g in grid if g not in bad_vals])) for x in syms}
            a, b = num(expr, sub), num(result, sub)
            if a is None or b is None:
                continue
            _count("K7:regular_points")
            if abs(a - b) > 1e-9 * max(1.0, abs(a)):
                _fail("K7", {"where": "regular point", "n_finite_singularities": len(fin), "expr": str(expr)[:150], "point": {str(k): float(v) for k, v in sub.items()}, "expr_value": str(a), "result_value": str(b),
                             "ratio": (b / a).real if a != 0 else None})
                return True
        for sg in fin:
            sub = {x: sympy.Float(rnd.choice(grid)) for x in syms if x != sg.symbol}
            sub[sg.symbol] = sg.value
            want, got = num(sg.replacement, sub), None
            try:
                got = num(result, sub)
            except Exception:
                got = None
            _count("K7:singular_points")
            if want is not None and (got is None or abs(got - want) > 1e-9 * max(1.0, abs(want))):
                _fail("K7", {"where": "singular value", "n_finite_singularities": len(fin), "expr": str(expr)[:150], "symbol": str(sg.symbol), "value": str(sg.value), "replacement": str(want), "result_value": str(got)})
                return True
    except Exception:
        _count("K7:error")
    return True


def _rebind(module_name, attr, new, orig):
    """Re-bind at every binding site: the defining module and every `from x import f` alias in gotranx.*"""
    n = 0
    for name, mod in list(sys.modules.items()):
        if not name.startswith("gotranx") or mod is None:
            continue
        for k, v in list(vars(mod).items()):
            if v is orig:
                setattr(mod, k, new)
                n += 1
    return n


def attach():
    """-> dict contract id -> number of re-bound sites (0 = not attached)."""
    if ATTACHED:
        return ATTACHED
    try:
        import icontract
    except ImportError:
        ATTACHED["_unavailable"] = 1
        return ATTACHED
    import gotranx.ode as gode
    import gotranx.schemes as gsch
    import gotranx.sympytools as gst

    class ContractBroken(Exception):
        pass

    try:
        orig = gode.sort_assignments
        new = icontract.ensure(k1_sorted_is_topological, error=ContractBroken)(orig)
        ATTACHED["K1"] = _rebind("gotranx.ode", "sort_assignments", new, orig)
    except Exception:
        ATTACHED["K1"] = 0
    try:
        orig = gode.make_ode
        new = icontract.ensure(k3_no_clashing_definitions, error=ContractBroken)(orig)
        ATTACHED["K3"] = _rebind("gotranx.ode", "make_ode", new, orig)
    except Exception:
        ATTACHED["K3"] = 0
    try:
        import gotranx.atoms as gat

        orig = gat.remove_singularities
        new = icontract.ensure(k7_singularities_removed, error=ContractBroken)(orig)
        ATTACHED["K7"] = _rebind("gotranx.atoms", "remove_singularities", new, orig)
    except Exception:
        ATTACHED["K7"] = 0
    try:
        orig = gode.ODE.sorted_assignments
        gode.ODE.sorted_assignments = icontract.ensure(k4_remove_unused_is_a_filter, error=ContractBroken)(orig)
        ATTACHED["K4"] = 1
    except Exception:
        ATTACHED["K4"] = 0
    try:
        prop = gode.ODE.__dict__["missing_variables"]
        wrapped = icontract.ensure(k5_missing_variables, error=ContractBroken)(prop.fget)
        gode.ODE.missing_variables = property(wrapped)
        ATTACHED["K5"] = 1
    except Exception:
        ATTACHED["K5"] = 0
    try:
        orig = gsch.get_scheme
        new = icontract.ensure(k6_scheme_named, error=ContractBroken)(orig)
        ATTACHED["K6"] = _rebind("gotranx.schemes", "get_scheme", new, orig)
    except Exception:
        ATTACHED["K6"] = 0
    try:
        orig = gst.rhs_matrix
        new = icontract.ensure(k8_rhs_matrix_expanded, error=ContractBroken)(orig)
        ATTACHED["K8"] = _rebind("gotranx.sympytools", "rhs_matrix", new, orig)
    except Exception:
        ATTACHED["K8"] = 0
    return ATTACHED


def drain():
    """-> (counters, failures) since the last call"""
    c, f = dict(COUNTERS), list(FAILURES)
    COUNTERS.clear()
    FAILURES.clear()
    return c, f
