"""pytest plugin: run the repository's own test-suite with the in-flight contracts attached.

    pytest -p vf.monitors.pytest_plugin ...      (PYTHONPATH must hold /verif and /verif/.deps)

Every process (xdist worker or the single process) writes its counters and recorded contract failures to
$VF_CONTRACTS_OUT/<pid>.json at session end.  The contracts never raise, so test outcomes are unchanged."""
import json
import os


def pytest_configure(config):
    from . import contracts

    contracts.attach()


def pytest_sessionfinish(session, exitstatus):
    from . import contracts

    out = os.environ.get("VF_CONTRACTS_OUT")
    if not out:
        return
    os.makedirs(out, exist_ok=True)
    c, f = contracts.drain()
    with open(os.path.join(out, f"{os.getpid()}.json"), "w") as fh:
        json.dump({"counters": c, "failures": f, "attached": dict(contracts.ATTACHED)}, fh, default=str)
