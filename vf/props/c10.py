"""C10 - the model does not depend on the order in which statements are written."""
from __future__ import annotations

import hashlib
import os

import numpy as np

from ..core import env
from ..exec.pyexec import PyModule
from ..gen import models, textmut
from ..gen.exprs import Profile
from ..refmodel import evalref as E
from ..refmodel.model import RefModel
from . import common as C
from . import findings as F

ID = "C10"
LEVEL = "exploration"
BUDGET = {"quick": 60, "thorough": 480}


def plan(tier, seed):
    specs = []
    n = 160 if tier == "quick" else 2500
    for k in range(n):
        specs.append({"klass": "random", "i": k, "fill": k >= 16, "n_comp": [1, 2, 3, 4][k % 4]})
    for k in range(16 if tier == "quick" else 200):
        specs.append({"klass": "repeated_helper_definition", "i": 5000 + k, "fill": k >= 6, "n_comp": [2, 3, 4][k % 3], "repeat_helper": True})
    for k in range(16 if tier == "quick" else 200):
        # a definition written twice in its component, same right-hand side, another trailing unit / remark (a legal repetition)
        specs.append({"klass": "repeated_with_other_comment", "i": 6000 + k, "fill": k >= 6, "n_comp": [1, 2, 3][k % 3], "repeat_comment": True})
    for s in specs:
        s["prop"] = ID
        s.setdefault("soft_timeout", 200)
    return specs


def run_case(spec, ctx):
    rng = C.rng_for(spec)
    out = {"violations": [], "counters": {}, "evaluations": 0, "nontrivial": False, "status": "held"}
    cn = out["counters"]
    prof = Profile(mod=False, int_literals=True, ccond=False, funcs=["exp", "sin", "cos", "sqrt", "abs", "log"])
    ms = models.gen_model(rng, prof, depth=2, n_comp=spec.get("n_comp", 2), n_inter=rng.choice([3, 5, 8, 12]), n_states=rng.choice([2, 3, 4, 5]), shape=rng.choice(["random", "unused", "diamond", "fan"]))
    if spec.get("repeat_helper"):
        # a helper definition repeated verbatim in two components (accepted by the loader), used in both
        if models.repeat_helper(ms):
            cn["repeated_helper"] = 1
    if spec.get("repeat_comment") and ms.assigns:
        for _ in range(rng.choice([1, 2])):
            n_, rhs_, comp_, tr_ = rng.choice(ms.assigns)
            ms.assigns.insert(rng.randrange(len(ms.assigns) + 1), (n_, rhs_, comp_, rng.choice(["mV", "a remark, see the paper", "uA", "ms**-1"] if tr_ is None else ["another remark", "mV*2"])))
        cn["repeated_with_other_comment"] = 1
    perms = list(textmut.permutations(ms, rng, n=8 if spec.get("tier") == "quick" else 20, split_declarations=spec["i"] % 3 == 1))
    base_text = perms[0][1]
    out["hash"] = models.structural_hash(base_text)
    ref = RefModel.from_text(base_text)
    if ref.ill_formed():
        out.update(status="inconclusive", reason=f"generator produced an ill-formed model {ref.ill_formed()}")
        return out
    lo = C.load_text(base_text)
    if not lo.ok:
        out.update(status="skipped", reason="rejected_by_loader: " + lo.describe())
        return out
    ode0 = lo.value
    g0 = {"numpy": C.py_code(ode0, schemes=["explicit_euler"]), "c": C.c_code(ode0, schemes=["explicit_euler"])}
    if not g0["numpy"].ok:
        out.update(status="skipped", reason="module cannot be generated (C01)")
        return out
    names0 = [s.name for s in ode0.sorted_states()]
    moved = 0
    for label, text, mv in perms[1:]:
        out["evaluations"] += 1
        # machinery cross-check: the permutation must keep the reference model identical
        r2 = RefModel.from_text(text)
        same_ref = (set(r2.states) == set(ref.states) and set(r2.params) == set(ref.params) and {k: ("".join(v.rhs.split()), v.comps) for k, v in r2.assigns.items()} == {k: ("".join(v.rhs.split()), v.comps) for k, v in ref.assigns.items()})
        if not same_ref or r2.ill_formed():
            cn["machinery_permutation_changed_reference"] = cn.get("machinery_permutation_changed_reference", 0) + 1
            continue
        moved += 1
        l2 = C.load_text(text)
        if not l2.ok:
            out["violations"].append({"kind": "permutation_fails_to_load", "subkind": label, "detail": {"permutation": label, "exc": l2.describe()}, "text": text})
            continue
        ode2 = l2.value
        eq = C.call(lambda: ode2 == ode0)
        if not eq.ok or not eq.value:
            comps0 = [c.name for c in ode0.components]
            comps2 = [c.name for c in ode2.components]
            same_sets = {c.name: c for c in ode0.components} == {c.name: c for c in ode2.components}
            out["violations"].append({"kind": "models_not_equal", "subkind": label, "detail": {"permutation": label, "components_orig": comps0, "components_perm": comps2, "same_components_as_sets": same_sets,
                                                                                           "comments_equal": ode0.comments == ode2.comments, "exc": None if eq.ok else eq.describe()}, "text": text})
        names2 = [s.name for s in ode2.sorted_states()]
        if names2 != names0:
            out["violations"].append({"kind": "slot_layout_differs", "subkind": label, "detail": {"permutation": label, "orig": names0, "perm": names2}, "text": text})
        for be, gen in (("numpy", lambda o: C.py_code(o, schemes=["explicit_euler"])), ("c", lambda o: C.c_code(o, schemes=["explicit_euler"]))):
            if not g0[be].ok:
                continue
            g2 = gen(ode2)
            if not g2.ok:
                out["violations"].append({"kind": "generation_fails_for_permutation", "subkind": label, "detail": {"permutation": label, "backend": be, "exc": g2.describe()}, "text": text})
                continue
            if g2.value != g0[be].value:
                d = {"permutation": label, "backend": be, "sha_orig": hashlib.sha256(g0[be].value.encode()).hexdigest()[:12], "sha_perm": hashlib.sha256(g2.value.encode()).hexdigest()[:12]}
                if be == "numpy":
                    # tell "layout / statement order differs" from "meaning differs"
                    try:
                        m0, m2 = PyModule(g0[be].value), PyModule(g2.value)
                        pt = ref.default_point(t=0.5)
                        a, b = m0.call("monitor_values", pt), m2.call("monitor_values", pt)
                        d["state_maps_equal"] = m0.names("state") == m2.names("state")
                        if a.exc is None and b.exc is None:
                            d["values_equal_by_name"] = all(abs(a.out[m0.names("monitor")[n]] - b.out[m2.names("monitor")[n]]) <= 1e-12 * (1 + abs(a.out[m0.names("monitor")[n]])) or (a.out[m0.names("monitor")[n]] != a.out[m0.names("monitor")[n]]) for n in m0.names("monitor"))
                    except Exception as exc:
                        d["probe_error"] = str(exc)[:100]
                out["violations"].append({"kind": "generated_bytes_differ", "subkind": be, "detail": d, "text": text})
    cn["permutations_checked"] = moved
    out["nontrivial"] = moved >= 3
    if out["violations"]:
        out["status"] = "violated"
    for v in out["violations"]:
        F.classify(ID, v, text=base_text)
    out["model_text"] = base_text if out["violations"] else None
    for v in out["violations"][1:]:
        v.pop("text", None)
    if spec["i"] % 9 == 0:
        out["sample"] = {"model_text": base_text[:600], "permutations": [p[0] for p in perms], "example_permutation": perms[-1][1][:600], "status": out["status"]}
    return out


def summarise(records, tier, seed):
    ag = C.aggregate(records)
    cn = ag["counters"]
    cov = {
        "evaluations": ag["evaluations"],
        "distinct_nontrivial": len(ag["hashes"]),
        "rule": "random 1-4 component models (+ a helper repeated in two components, + a definition repeated in its component with another trailing unit / remark); permutations: reversal/rotation/adjacent swap of lines inside every expressions and declaration block, reversal and shuffles of the block order "
        "(the unnamed expressions block is kept ahead of named ones); each permutation is first confirmed to leave the reference model unchanged; evaluation = one permuted text loaded, compared with == "
        "and generated for numpy and C (same process, same hash seed); non-trivial = >= 3 permutations checked; distinct by structural hash",
        "samples": C.pick_samples(records),
        "per_class_cases": ag["classes"],
        "status": ag["status"],
        "permutations_checked": cn.get("permutations_checked", 0),
        "machinery_rejected_permutations": cn.get("machinery_permutation_changed_reference", 0),
    }
    verdict = {}
    if len(ag["hashes"]) < (25 if tier == "quick" else 250):
        verdict["inconclusive"] = f"only {len(ag['hashes'])} distinct non-trivial cases"
    return cov, ["permutations that split or merge blocks of one component are not generated (the statement does not promise them)", "free-standing comment lines are not moved (C17)"], verdict
