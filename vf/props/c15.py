"""C15 - importing a Myokit / CellML model preserves its dynamics (oracle: Myokit's own evaluator)."""
from __future__ import annotations

import math
import os
import random
import tempfile
import warnings

import numpy as np

from ..core import env
from ..exec.pyexec import PyModule
from ..gen import myokitgen
from . import common as C
from . import findings as F

ID = "C15"
LEVEL = "exploration"
BUDGET = {"quick": 80, "thorough": 600}

ODE_TEXTS = [
    "parameters(\"membrane\", g=ScalarParam(0.5, unit=\"uS\"), E=-60.5)\nstates(\"membrane\", V=ScalarParam(-87.0, unit=\"mV\"))\nstates(\"gate\", m=0.05)\nparameters(\"gate\", tau=2.0)\n\nexpressions(\"membrane\")\nI = g * (V - E) * m\ndV_dt = -I\n\nexpressions(\"gate\")\nminf = 1 / (1 + exp(-(V + 40) / 6.8))\ndm_dt = (minf - m) / tau\n",
    "parameters(\"main\", a=1.5, b=0.25)\nstates(\"main\", x=0.5, y=1.25)\n\nexpressions(\"main\")\nw = Conditional(Gt(x, 0.25), a * x, b)\ndx_dt = w - y * x\ndy_dt = sqrt(abs(x)) - y\n",
    # n-ary And / Or where one operand alone decides (the last, the first, a middle one)
    "parameters(\"main\", a=1.5, b=0.25)\nstates(\"main\", x=0.5, y=1.25)\n\nexpressions(\"main\")\nw = Conditional(And(Gt(x, 0.25), Lt(y, 2.0), Gt(a, 2.0)), a * x, b)\n"
    "u = Conditional(Or(Gt(x, 1.25), Lt(y, 0.0), Gt(a, 1.0)), 2.5, x)\nv5 = Conditional(And(Gt(x, 0.25), Lt(y, 2.0), Gt(a, 1.0), Lt(b, 1.0), Gt(y, 1.5)), 3.5, y)\n"
    "v1 = Conditional(And(Gt(x, 0.75), Lt(y, 2.0), Gt(a, 1.0)), 4.5, y * 2)\nv2 = Conditional(Or(Gt(x, 0.75), Lt(y, 2.0), Gt(a, 3.0), Lt(b, 0.0)), 5.5, y * 3)\n"
    "dx_dt = w - y * x + u + v1\ndy_dt = v5 - y + v2 * 0.125\n",
    # a state derivative used in other expressions
    "parameters(\"main\", a=1.5)\nstates(\"main\", x=0.5, y=1.25)\n\nexpressions(\"main\")\ndx_dt = -a * x + y\nr = 2 * dx_dt\ndy_dt = r - y + dx_dt * 0.25\n",
    "parameters(\"membrane\", g=ScalarParam(0.5, unit=\"uS\"), E=ScalarParam(-60.5, unit=\"mV\"), Cm=ScalarParam(1.0, unit=\"uF*cm**-2\"))\nstates(\"membrane\", V=ScalarParam(-87.0, unit=\"mV\"))\n\n"
    "expressions(\"membrane\")\nI = g * (V - E) # uA\ndV_dt = -I / Cm # mV/ms\n",
]


def plan(tier, seed):
    specs = [{"klass": "repo_mmt", "i": 0, "file": "tests/mmt_files/example.mmt"}, {"klass": "repo_cellml", "i": 1, "file": "tests/cellml_files/noble_1962.cellml"}]
    if tier == "thorough":
        specs.append({"klass": "repo_cellml", "i": 2, "file": "tests/cellml_files/ToRORd_dynCl_mid.cellml", "soft_timeout": 900})
    for k in range(len(ODE_TEXTS)):
        specs.append({"klass": "ode_text_export", "i": k})
    for k in range(30 if tier == "quick" else 400):
        specs.append({"klass": "ode_text_export_random", "i": 1000 + k, "fill": k >= 8})
    n = 70 if tier == "quick" else 1200
    for k in range(n):
        specs.append({"klass": "generated_mmt", "i": k, "fill": k >= 16})
    for s in specs:
        s["prop"] = ID
        s.setdefault("soft_timeout", 300)
    return specs


def gname(var):
    import gotranx.myokit as gm

    n = var.uname()
    return f"{n}_" if (n in gm.reserved_names or n in ("t", "time")) else n


def mk_eval(model, state, t):
    return model.evaluate_derivatives(state=list(state), inputs={"time": t}, ignore_errors=True)


def compare_rhs(model, mod, out, cn, label, rng, name_of):
    """Generated rhs vs Myokit's evaluation at the initial state and at perturbed states."""
    import myokit

    svars = list(model.states())
    init = model.initial_values(as_floats=True)
    sidx = mod.names("state")
    pidx = mod.names("parameter")
    p = mod.ns["init_parameter_values"]()
    compared = 0
    pts = [(list(init), 0.0)]
    for _ in range(5):
        f = rng.choice([0.01, -0.01, 0.1, -0.1])
        st = [v * (1 + f) if v else f for v in init]
        if rng.random() < 0.5:
            k = rng.randrange(len(st))
            st = list(init)
            st[k] = init[k] * (1 + f) if init[k] else f
        pts.append((st, rng.choice([0.0, 0.5, 10.0])))
    for st, t in pts:
        try:
            want = mk_eval(model, st, t)
            # conditioning: the same evaluation one ulp away in the states and in time, in both directions
            # (a point that sits exactly on a discontinuity of floor / a comparison decides nothing)
            nudge = lambda v, sgn: v * (1 + sgn * 1e-13) if v else sgn * 1e-13
            alts = [mk_eval(model, [math.nextafter(v, math.inf) for v in st], t), mk_eval(model, [math.nextafter(v, -math.inf) for v in st], t),
                    mk_eval(model, [nudge(v, 1) for v in st], nudge(t, 1)), mk_eval(model, [nudge(v, -1) for v in st], nudge(t, -1)),
                    mk_eval(model, st, nudge(t, 1)), mk_eval(model, st, nudge(t, -1))]
            want2 = [max(col, key=lambda q: abs(q - w) if math.isfinite(q) else math.inf) for w, col in zip(want, zip(*alts))]
        except Exception as exc:
            cn["myokit_eval_errors"] = cn.get("myokit_eval_errors", 0) + 1
            continue
        s = np.zeros(len(sidx))
        for v, val in zip(svars, st):
            s[sidx[name_of(v)]] = val
        with warnings.catch_warnings():
            warnings.simplefilter("ignore")
            try:
                with np.errstate(all="ignore"):
                    got = np.asarray(mod.ns["rhs"](np.float64(t), s, p))
            except Exception as exc:
                out["violations"].append({"kind": "rhs_raises", "subkind": label, "detail": {"which": label, "exc": f"{type(exc).__name__}: {exc}"[:200]}})
                return compared
        out["evaluations"] += 1
        for v, w, w2 in zip(svars, want, want2):
            if not (math.isfinite(w) and math.isfinite(w2)):
                continue
            if abs(w - w2) > 1e-9 * max(abs(w), 1e-300):
                cn["illconditioned_skipped"] = cn.get("illconditioned_skipped", 0) + 1
                continue
            g = float(got[sidx[name_of(v)]])
            if label != "imported" and not math.isfinite(g):
                # for a converted-back model the generated rhs stands for the gotranx model: where that is undefined
                # (e.g. 0.1*t/t at t = 0) any value of the Myokit model is acceptable
                cn["undefined_in_gotranx_model_skipped"] = cn.get("undefined_in_gotranx_model_skipped", 0) + 1
                continue
            compared += 1
            if not (math.isfinite(g) and abs(g - w) <= 1e-9 * abs(w) + 1e-12):
                mv = None
                try:
                    mon = np.asarray(mod.ns["monitor_values"](np.float64(t), s, p))
                    mv = {n_: float(mon[i_]) for n_, i_ in mod.names("monitor").items()}
                except Exception:
                    pass
                out["violations"].append({"kind": "rhs_differs_from_myokit", "subkind": label, "detail": {"which": label, "state": v.qname(), "gotranx": g, "myokit": w, "t": t, "rhs_text": v.rhs().code()[:200],
                                                                                              "state_vector": s.tolist(), "state_map": sidx, "parameters": {n_: float(p[i_]) for n_, i_ in pidx.items()}, "monitor": mv, "code": mod.source[-3000:]}})
                return compared
    return compared


def check_units(orig, back, out, cn, label, reloaded=False):
    """Every variable's unit in the Myokit model converted back equals the original one (Myokit's own Unit equality)."""
    import myokit

    n = 0
    for v in orig.variables(deep=True):
        if v.is_bound():
            continue
        comp = v.qname().split(".")[0]
        try:
            b = back.get(f"{comp}.{gname(v)}")
        except Exception:
            cn["units_variable_not_found"] = cn.get("units_variable_not_found", 0) + 1
            continue
        if reloaded and v.unit() in (None, myokit.units.dimensionless) and b.unit() in (None, myokit.units.dimensionless):
            # a .ode file has no way to tell 'no unit' from the unit 1
            continue
        n += 1
        if b.unit() != v.unit():
            out["violations"].append({"kind": "unit_differs_after_round_trip", "subkind": label, "detail": {"which": label, "variable": v.qname(), "myokit": str(v.unit()), "converted_back": str(b.unit())}})
            break
    cn["units_compared"] = cn.get("units_compared", 0) + n


def check_exported_declarations(ode, m2, out, cn):
    """States (initial values), parameters (values) and their units in the Myokit model exported from .ode text."""
    import myokit

    n = 0
    for comp in ode.components:
        for atom, kind in [(a, "parameter") for a in comp.parameters] + [(a, "state") for a in comp.states]:
            try:
                v = next(x for x in m2.variables(deep=True) if x.name() == atom.name)
            except Exception:
                out["violations"].append({"kind": "exported_variable_missing", "subkind": kind, "detail": {"which": "exported_from_ode_text", "name": atom.name, "component": comp.name}})
                return
            want = float(atom.value)
            got = float(v.initial_value(as_float=True)) if kind == "state" else float(v.rhs().eval())
            n += 1
            if abs(got - want) > 1e-12 * abs(want) + 1e-300:
                out["violations"].append({"kind": "exported_value_differs", "subkind": kind, "detail": {"which": "exported_from_ode_text", "name": atom.name, "gotranx": want, "myokit": got}})
                return
            if atom.unit_str:
                try:
                    wu = myokit.parse_unit(atom.unit_str.replace("**", "^"))
                except Exception:
                    cn["units_not_expressible_in_myokit"] = cn.get("units_not_expressible_in_myokit", 0) + 1
                    continue
                n += 1
                if v.unit() != wu:
                    out["violations"].append({"kind": "unit_differs_after_round_trip", "subkind": kind, "detail": {"which": "exported_from_ode_text", "variable": atom.name, "gotranx": atom.unit_str, "converted_back": str(v.unit())}})
                    return
    cn["declarations_compared"] = cn.get("declarations_compared", 0) + n


def run_case(spec, ctx):
    import myokit
    import myokit.formats.cellml

    import gotranx.myokit as gm
    from gotranx.load import load_ode

    rng = C.rng_for(spec)
    out = {"violations": [], "counters": {}, "evaluations": 0, "nontrivial": False, "status": "held"}
    cn = out["counters"]
    work = tempfile.mkdtemp(prefix="c15-", dir=os.environ.get("VERIF_WORK"))
    text = None
    if spec["klass"] in ("ode_text_export", "ode_text_export_random"):
        # a model written as .ode text exported to Myokit
        if spec["klass"] == "ode_text_export":
            text = ODE_TEXTS[spec["i"]]
            out["hash"] = f"ode{spec['i']}"
        else:
            from ..gen import models
            from ..gen.exprs import Profile

            # literal / folding defects of the numpy printer are C01's subject: keep literals plain, structure rich
            prof = Profile(mod=False, int_literals=False, hard_lits=False, ccond=False, pow=False, funcs=["exp", "sin", "cos", "atan", "abs", "sqrt", "log"])
            text = models.gen_model(rng, prof, depth=3, n_states=rng.choice([1, 2, 3, 4]), n_inter=rng.choice([2, 4, 6]), n_comp=rng.choice([1, 2, 3])).render(rng)
            out["hash"] = models.structural_hash(text)
        lo = C.load_text(text, name="fromtext")
        if not lo.ok:
            out.update(status="skipped", reason="rejected_by_loader: " + lo.describe()[:100])
            return out
        ode = lo.value
        if not C.py_code(ode).ok:
            out.update(status="skipped", reason="numpy module cannot be generated (C01)")
            return out
        ex = C.call(gm.gotran_to_myokit, ode)
        out["evaluations"] += 1
        if not ex.ok:
            out["violations"].append({"kind": "gotran_to_myokit_raises", "subkind": "ode_text", "detail": {"which": "model written as .ode text", "exc": ex.describe()[:300], "site": C.trace_site(ex.exc, 3)}})
            return finish(out, text, spec)
        m2 = ex.value
        mod = PyModule(C.py_code(ode).value)
        cmp = compare_rhs(m2, mod, out, cn, "exported_from_ode_text", rng, lambda v: v.name())
        check_exported_declarations(ode, m2, out, cn)
        cn["compared"] = cmp
        out["nontrivial"] = cmp >= 2
        return finish(out, text, spec)
    protocol = None
    if spec["klass"] == "generated_mmt":
        for attempt in range(6):
            text = myokitgen.gen_mmt(random.Random(f"{spec['seed']}:{spec['i']}:{attempt}"))
            try:
                model = myokit.parse_model(text)
                model.validate()
                break
            except Exception:
                model = None
        if model is None:
            out.update(status="skipped", reason="generator could not produce a valid Myokit model")
            return out
        out["hash"] = str(hash(text))
    elif spec["klass"] == "repo_mmt":
        model, protocol, _ = myokit.load(os.path.join(env.REPO, spec["file"]))
        out["hash"] = spec["file"]
    else:
        model = myokit.formats.cellml.CellMLImporter().model(os.path.join(env.REPO, spec["file"]))
        out["hash"] = spec["file"]
    with warnings.catch_warnings():
        warnings.simplefilter("ignore")
        imp = C.call(gm.myokit_to_gotran, model, protocol) if protocol is not None else C.call(gm.myokit_to_gotran, model)
    out["evaluations"] += 1
    if not imp.ok:
        out["violations"].append({"kind": "import_raises", "detail": {"exc": imp.describe()[:300], "site": C.trace_site(imp.exc, 3)}})
        return finish(out, text, spec)
    ode = imp.value
    ref_model = model
    if protocol is not None:
        ref_model = model.clone()
        import myokit.lib.guess

        myokit.lib.guess.add_embedded_protocol(ref_model, protocol)
    ref_model.create_unique_names()
    # states with initial values, constants with values, under unique names
    init = ref_model.initial_values(as_floats=True)
    st_by_name = {s.name: s for s in ode.states}
    par_by_name = {p.name: p for p in ode.parameters}
    int_by_name = {p.name: p for p in ode.intermediates}
    for v, iv in zip(ref_model.states(), init):
        a = st_by_name.get(gname(v))
        if a is None:
            out["violations"].append({"kind": "state_missing", "detail": {"state": v.qname(), "expected_name": gname(v), "have": sorted(st_by_name)[:10]}})
        elif abs(float(a.value) - iv) > 1e-12 * abs(iv) + 1e-300:
            out["violations"].append({"kind": "initial_value_differs", "detail": {"state": v.qname(), "gotranx": float(a.value), "myokit": iv}})
    n_const = 0
    for v in ref_model.variables(const=True, deep=True):
        if v.is_bound() or not v.rhs().is_literal():
            continue
        n_const += 1
        a = par_by_name.get(gname(v))
        if a is not None:
            val = float(a.value)
        else:
            # a constant may also be imported as an intermediate with a constant expression (e.g. negative literals)
            b = int_by_name.get(gname(v))
            try:
                val = float(b.expr.doit().evalf()) if b is not None and not b.expr.free_symbols else None
            except (TypeError, ValueError):
                val = None
            if b is not None and val is not None:
                cn["constants_imported_as_intermediates"] = cn.get("constants_imported_as_intermediates", 0) + 1
        if a is None and val is None:
            out["violations"].append({"kind": "constant_missing", "detail": {"constant": v.qname(), "expected_name": gname(v)}})
        elif abs(val - v.rhs().eval()) > 1e-12 * abs(v.rhs().eval()) + 1e-300:
            out["violations"].append({"kind": "constant_value_differs", "detail": {"constant": v.qname(), "gotranx": val, "myokit": v.rhs().eval()}})
    cn["constants_checked"] = n_const
    if out["violations"]:
        return finish(out, text, spec)
    # straight back to Myokit: values and units
    ex0 = C.call(gm.gotran_to_myokit, ode)
    if ex0.ok:
        check_units(ref_model, ex0.value, out, cn, "myokit->gotranx->myokit")
    else:
        out["violations"].append({"kind": "gotran_to_myokit_raises", "subkind": "imported", "detail": {"which": "imported model", "exc": ex0.describe()[:300], "site": C.trace_site(ex0.exc, 3)}})
    # the documented save-and-reload step
    path = os.path.join(work, "imported.ode")
    sv = C.call(ode.save, path)
    if not sv.ok:
        out["violations"].append({"kind": "save_of_imported_model_raises", "detail": {"exc": sv.describe()[:300], "site": C.trace_site(sv.exc, 3)}})
        return finish(out, text, spec)
    ld = C.call(load_ode, path)
    if not ld.ok:
        saved = open(path).read()
        import re

        m = re.search(r"line (\d+)", ld.describe())
        line = saved.split("\n")[int(m.group(1)) - 1][:200] if m else None
        out["violations"].append({"kind": "saved_imported_model_rejected", "detail": {"exc": ld.describe()[:300], "saved_line": line}})
        return finish(out, text, spec)
    ode2 = ld.value
    oc = C.py_code(ode2)
    if not oc.ok:
        out["violations"].append({"kind": "reloaded_model_cannot_be_generated", "detail": {"exc": oc.describe()[:300]}})
        return finish(out, text, spec)
    mod = PyModule(oc.value)
    cmp = compare_rhs(ref_model, mod, out, cn, "imported", rng, gname)
    if ex0.ok:
        cmp += compare_rhs(ex0.value, mod, out, cn, "exported-without-reload", rng, lambda v: v.name())
    # and back to Myokit
    ex = C.call(gm.gotran_to_myokit, ode2)
    if not ex.ok:
        out["violations"].append({"kind": "gotran_to_myokit_raises", "subkind": "reloaded", "detail": {"which": "imported, saved and reloaded model", "exc": ex.describe()[:300], "site": C.trace_site(ex.exc, 3)}})
    else:
        cmp += compare_rhs(ex.value, mod, out, cn, "re-exported", rng, lambda v: v.name())
        check_units(ref_model, ex.value, out, cn, "re-exported", reloaded=True)
    cn["compared"] = cmp
    out["nontrivial"] = cmp >= 2
    return finish(out, text, spec)


def finish(out, text, spec):
    if out["violations"]:
        out["status"] = "violated"
    for v in out["violations"]:
        F.classify(ID, v, text=text)
    out["model_text"] = text if out["violations"] else None
    if spec["i"] % 9 == 0:
        out["sample"] = {"klass": spec["klass"], "model": (text or spec.get("file"))[:700], "counters": out["counters"], "status": out["status"]}
    return out


def summarise(records, tier, seed):
    ag = C.aggregate(records)
    cn = ag["counters"]
    cov = {
        "evaluations": ag["evaluations"],
        "distinct_nontrivial": len(ag["hashes"]),
        "rule": "generated .mmt models (nested variables to depth 2, sibling states reusing local names alpha/beta/gamma/tau, names clashing with sympy's namespace, if/piecewise, ^ // % sqrt log log10 exp abs floor "
        "ceil trig, and/or/not, units, bound time) + the repository's .mmt (with embedded pacing protocol) and CellML files + models written as .ode text; evaluation = one import / export or one rhs call; "
        "oracle = myokit.Model.evaluate_derivatives at the initial state and at perturbed states/times (points where a 1-ulp perturbation changes Myokit's own value by > 1e-9 are skipped); "
        "non-trivial = >= 2 derivative values compared; distinct by model",
        "samples": C.pick_samples(records),
        "per_class_cases": ag["classes"],
        "status": ag["status"],
        "derivative_values_compared": cn.get("compared", 0),
        "constants_checked": cn.get("constants_checked", 0),
        "illconditioned_points_skipped": cn.get("illconditioned_skipped", 0),
    }
    verdict = {}
    if len(ag["hashes"]) < (15 if tier == "quick" else 150):
        verdict["inconclusive"] = f"only {len(ag['hashes'])} non-trivial cases"
    return cov, ["Myokit's expression evaluator is the oracle (independent of sympy and of gotranx); a defect shared by Myokit's sympy exporter and its evaluator would be invisible"], verdict
