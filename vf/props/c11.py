"""C11 - saving a model to .ode and loading it back preserves the model."""
from __future__ import annotations

import os
import tempfile
from fractions import Fraction

from ..core import env
from ..exec.pyexec import PyModule
from ..gen import classes, models, points
from ..gen.exprs import Profile
from ..refmodel import evalref as E
from ..refmodel import schemes as S
from ..refmodel.model import RefModel
from . import common as C
from . import findings as F

ID = "C11"
LEVEL = "exploration"
BUDGET = {"quick": 60, "thorough": 480}

ROUNDTRIP_EXPRS = [
    "exp(1)", "exp(1) * a", "exp(2)", "exp(-1)", "pi", "pi * 2", "sqrt(2)", "sqrt(2) * a", "1/3", "a * (1/3)", "a ** (2/3)", "2 ** (1/2)", "a ** 0.5", "a ** -1", "a ** (-1/2)",
    "Conditional(Not(Lt(a, 1)), b, c)", "Conditional(Not(Gt(a, 1)), b, c)", "Conditional(Not(Le(a, 1)), b, c)", "Conditional(Not(Ge(a, 1)), b, c)", "Conditional(Not(Eq(a, 1.25)), b, c)",
    "Conditional(Eq(a, 1.25), b, c)", "Conditional(And(Gt(a, 1), Lt(b, 1)), a, b)", "Conditional(Or(Gt(a, 1), Lt(b, 1), Eq(c, 2)), a, b)", "Conditional(Not(And(Gt(a, 1), Lt(b, 1))), a, b)",
    "Conditional(Not(Or(Gt(a, 1), Not(Eq(b, 0.75)))), a, b)", "Conditional(Gt(a, 1), 1, Conditional(Eq(a, 1), 0.5, 0))", "Conditional(Lt(a, 1), Conditional(Lt(b, 1), 1, 2), Conditional(Lt(c, 2), 3, 4))",
    "Conditional(Gt(2, 1), a, b)", "Conditional(Lt(2, 1), a, b)", "Abs(a - 2)", "abs(-a)", "Mod(a, 0.75)", "Mod(-a, 2) * b", "floor(a * 3)", "ContinuousConditional(Gt(a, 1), b, c, 0.5)",
    "ContinuousConditional(Le(a, b), 1, 0, 2.0)", "a * 1e-12", "a * 1.5e300 * 1e-300", "a + 123456789012345678901234567890 * 1e-30", "-a", "-(a + b)", "a - -b", "-2.5 * a", "a / -b",
    "log(a) + ln(b)", "tan(a / 4) + atan(b)", "asin(a / 2) + acos(b / 2)", "sin(pi * a) * cos(b)", "exp(-(a + 80) / 6.8)", "a * b - c / a + a ** 2", "(a - b) / (a + b)", "a ** b", "2 ** a",
    "Conditional(Or(Lt(a, -0.375), Ge(a, -0.375)), b, c)", "Conditional(Or(Lt(a, -0.375), Gt(b, 5), Ge(a, -0.375), Eq(a, t)), b, a) * 2 + c", "Conditional(And(Lt(a, -0.375), Ge(a, -0.375)), b, c) - a",
    "tan(acos(sin(1)))", "tan(acos(a / 4)) + tan(asin(b / 2))", "1 / cos(asin(a / 2)) + 1 / sin(acos(b / 2))", "log(abs(exp(sin(log(c - a / 4)))) + 0.5)", "log(abs(exp(asin(a / 2))) + 0.5)", "abs(a ** b) + abs(exp(atan(a)))",
    "Conditional(Ge(a, -0.25), a, -a)", "Conditional(Le(-1.5, a), a, b) * 2", "0.1 + 0.2 * a", "a * 0.30000000000000004", "a * 1e22", "t * a + time", "Conditional(Gt(t, 1), a, b)",
]


def plan(tier, seed):
    specs = []
    for k, chunk in enumerate(classes.chunks(ROUNDTRIP_EXPRS, 10)):
        specs.append({"klass": "constructs", "i": k, "exprs": chunk, "form": "direct" if k % 2 else "inter"})
    specs.append({"klass": "annotated", "i": 0})
    specs.append({"klass": "comments", "i": 0})
    for k, f in enumerate(classes.corpus(env.REPO, big=(tier == "thorough"))):
        specs.append({"klass": "corpus", "i": k, "file": os.path.relpath(f, env.REPO), "soft_timeout": 600})
    for k in range(12 if tier == "quick" else 120):
        # a helper definition repeated verbatim in two components
        specs.append({"klass": "repeated_helper_definition", "i": 9000 + k, "repeat_helper": True})
    for k in range(8 if tier == "quick" else 60):
        # declared defaults across all decades (plain and ScalarParam form, both signs, short and 15-digit mantissas)
        specs.append({"klass": "default_literals", "i": 9500 + k})
    n = 220 if tier == "quick" else 3000
    for k in range(n):
        specs.append({"klass": "random", "i": k, "fill": True})
    for s in specs:
        s["prop"] = ID
        s.setdefault("soft_timeout", 150)
    return specs


ANNOTATED = """# A model with units, descriptions and several components
# second comment line that is long enough to be wrapped by the writer when it breaks comments at eighty columns, really
parameters("membrane", g=ScalarParam(0.5, unit="uS", description="a conductance"), E=ScalarParam(-60.5, unit="mV"))
parameters("gate", tau=ScalarParam(2.0, unit="ms", description="time constant, with comma"), k=1e-3)
parameters(free=3.25)
states("membrane", V=ScalarParam(-87.0, unit="mV", description="membrane potential"))
states("gate", m=ScalarParam(0.05, unit="1"), h=0.75)

expressions("membrane")
I = g * (V - E) * m * h # uA
dV_dt = -I + free * k # mV*ms**-1

expressions("gate")
minf = 1 / (1 + exp(-(V + 40) / 6.8))
dm_dt = (minf - m) / tau # ms**-1
dh_dt = -h * k
"""


def case_text(spec, rng):
    if spec.get("text"):
        return spec["text"]
    k = spec["klass"]
    if k == "constructs":
        return classes.packed_model_intermediates(spec["exprs"]) if spec.get("form") == "inter" else classes.packed_model(spec["exprs"])
    if k == "annotated":
        return ANNOTATED
    if k == "comments":
        return "# one\n# two words\n" + classes.packed_model(["a * 2", "b - c"]) + "# trailing comment\n"
    if k == "corpus":
        return open(os.path.join(env.REPO, spec["file"])).read()
    if k == "default_literals":
        return default_literal_model(rng, spec["i"])
    if spec.get("repeat_helper"):
        ms = models.gen_model(rng, Profile(hard_lits=False, mod=False), depth=2, n_comp=rng.choice([2, 3]), n_states=rng.choice([2, 3, 4]))
        models.repeat_helper(ms)
        return ms.render(rng)
    return models.gen_model(rng, Profile(), depth=rng.choice([2, 3])).render(rng)


def default_literal_model(rng, i):
    """Parameters and states whose declared defaults cover the decades 1e-290 .. 1e300 (every exponent is reached over the cases of a
    tier: the exponents of case i are i, i + 8, ... shifted), written the way users write them."""
    mant = ["1", "1.0", "2.5", "4.0", "9.99999999999999", "1.00000000000001", "3", "7.125", "1.5"]
    vals = []
    exps = list(range(-290 + i % 10, 301, 10)) + [rng.randint(-290, 300) for _ in range(6)] + [-5, -4, 15, 16, 0, 10, 20, -10, -20, 100, -100, -300 + 10 + i % 5]
    for q, ex in enumerate(exps):
        m = mant[(q + i) % len(mant)]
        sign = "-" if (q + i) % 4 == 0 else ""
        vals.append(f"{sign}{m}{rng.choice(['e', 'E', 'e+'] if ex >= 0 else ['e', 'E'])}{ex}")
    half = len(vals) // 2
    ps = [f"p{j}={v}" if j % 3 else f'p{j}=ScalarParam({v}, unit="mV")' for j, v in enumerate(vals[:half])]
    ss = [f"s{j}={v}" if j % 3 != 1 else f'"comp{j % 2}", s{j}=ScalarParam({v})' for j, v in enumerate(vals[half:])]
    lines = ["parameters(" + ", ".join(ps) + ")"]
    plain = [x for x in ss if not x.startswith('"')]
    lines.append("states(" + ", ".join(plain) + ")")
    for x in ss:
        if x.startswith('"'):
            lines.append("states(" + x + ")")
    lines.append("")
    n_s = len(vals) - half
    for j in range(n_s):
        if j % 3 == 1:
            lines.append(f'expressions("comp{j % 2}")')
            lines.append(f"ds{j}_dt = -s{j} * 0.5")
    lines.append('expressions("main")') if False else None
    body = [f"ds{j}_dt = -s{j} * 0.5 + 0 * p{j % half}" for j in range(n_s) if j % 3 != 1]
    # the plain states live in the unnamed component: their equations come first
    head = lines[: 2 + sum(1 for x in ss if x.startswith('"'))]
    tail = lines[len(head) + 1:]
    return "\n".join(head + [""] + body + [t for t in tail if t is not None]) + "\n"


def atoms_of(ode):
    d = {}
    for comp in ode.components:
        for kind, items in (("state", comp.states), ("parameter", comp.parameters), ("intermediate", comp.intermediates), ("derivative", comp.state_derivatives)):
            for a in items:
                e = d.setdefault(a.name, {"kind": kind, "components": set(), "unit": a.unit_str, "description": a.description, "value": getattr(a, "value", None) if kind in ("state", "parameter") else None})
                e["components"].add(comp.name)
    return d


OLDER_SAVE = "parameters(zz_old_p=1.0)\nstates(zz_old_state=0.5)\n\nzz_old_monitor = zz_old_p * 2\ndzz_old_state_dt = -zz_old_state\n"


def roundtrip(ode, work):
    from gotranx.load import load_ode

    path = os.path.join(work, f"{ode.name or 'model'}.ode")
    if not os.path.exists(path):
        # the target usually exists already: an older save of another version of the model
        open(path, "w").write(OLDER_SAVE)
    sv = C.call(ode.save, path)
    if not sv.ok:
        return None, ("save_raises", sv)
    saved = open(path).read()
    ld = C.call(load_ode, path)
    if not ld.ok:
        return saved, ("saved_file_rejected", ld)
    return saved, ld.value


def check_model(text, rng, tier):
    out = {"violations": [], "counters": {}, "evaluations": 0, "nontrivial": False, "status": "held"}
    cn = out["counters"]
    try:
        ref = RefModel.from_text(text)
    except E.Unsupported as exc:
        out.update(status="skipped", reason=f"reference_unsupported: {exc}")
        return out
    if ref.ill_formed():
        out.update(status="inconclusive", reason="generator produced an ill-formed model")
        return out
    lo = C.load_text(text, name="model")
    if not lo.ok:
        out.update(status="skipped", reason="rejected_by_loader: " + lo.describe())
        return out
    ode = lo.value
    work = tempfile.mkdtemp(prefix="c11-", dir=os.environ.get("VERIF_WORK"))
    saved, r = roundtrip(ode, work)
    out["evaluations"] += 1
    if isinstance(r, tuple):
        kind, oc = r
        v = {"kind": kind, "detail": {"exc": oc.describe()[:400], "site": C.trace_site(oc.exc, 4)}}
        if saved:
            # show the offending line of the saved file
            import re

            m = re.search(r"line (\d+)", oc.describe())
            if m:
                ls = saved.split("\n")
                ln = int(m.group(1))
                v["detail"]["saved_line"] = ls[ln - 1][:200] if 0 < ln <= len(ls) else None
        out["violations"].append(v)
        out["saved"] = saved
        out["status"] = "violated"
        out["_ode"], out["_ref"] = ode, ref
        return out
    ode2 = r
    out["saved"] = saved
    a1, a2 = atoms_of(ode), atoms_of(ode2)
    if set(a1) != set(a2):
        out["violations"].append({"kind": "names_differ", "detail": {"lost": sorted(set(a1) - set(a2))[:6], "new": sorted(set(a2) - set(a1))[:6]}})
    n_atoms = 0
    for n in set(a1) & set(a2):
        x, y = a1[n], a2[n]
        n_atoms += 1
        for fld in ("kind", "components", "unit", "description"):
            xv, yv = x[fld], y[fld]
            if fld == "unit":
                xv, yv = (None if xv in (None, "1") else xv), (None if yv in (None, "1") else yv)
            if fld == "description":
                xv, yv = xv or None, yv or None
            if xv != yv:
                out["violations"].append({"kind": f"{fld}_differs", "subkind": x["kind"], "detail": {"name": n, "atom_kind": x["kind"], "before": str(xv), "after": str(yv)}})
        if x["kind"] in ("state", "parameter"):
            try:
                want = ref.decl_value(n)
                got = float(y["value"])
                if abs(E.mpf(got) - want.v) > E.mpf("1e-14") * abs(want.v) + E.mpf("1e-300"):
                    out["violations"].append({"kind": "default_value_differs", "detail": {"name": n, "declared": float(want.v), "after": got}})
            except (E.Undefined, E.Undecidable, E.Unsupported, TypeError, ValueError):
                pass
    cn["atoms_compared"] = n_atoms
    # numerics of the reloaded model against the reference of the ORIGINAL text, by name
    sch = ["explicit_euler", "generalized_rush_larsen"]
    oc = C.py_code(ode2, schemes=sch)
    if not oc.ok:
        if C.py_code(ode, schemes=sch).ok:
            out["violations"].append({"kind": "reloaded_model_cannot_be_generated", "detail": {"exc": oc.describe()[:300]}})
        else:
            cn["original_cannot_be_generated_either"] = 1
    else:
        try:
            m = PyModule(oc.value)
        except Exception as exc:
            out["violations"].append({"kind": "reloaded_module_exec_fails", "detail": {"exc": str(exc)[:200]}})
            m = None
        if m is not None:
            pts, st = points.sample(ref, rng, want=5 if tier == "quick" else 10, max_draws=40)
            cn["points"] = st
            sidx, midx = m.names("state"), m.names("monitor")
            # the original model's own module: a disagreement it shares is not a save/load event (C01)
            oc0 = C.py_code(ode, schemes=sch)
            m0 = None
            if oc0.ok:
                try:
                    m0 = PyModule(oc0.value)
                except Exception:
                    m0 = None
            compared = 0
            seen = set()
            for j, (pt, res, dec) in enumerate(pts):
                if not set(sidx) == set(ref.states):
                    break
                for fn in ("monitor_values", "explicit_euler", "generalized_rush_larsen"):
                    dt = None if fn == "monitor_values" else 0.05
                    rec = m.call(fn, pt, dt=dt)
                    out["evaluations"] += 1
                    if rec.exc is not None:
                        continue
                    if fn == "monitor_values":
                        exp = {n: res[n] for n in ref.assigns if n in midx}
                        idx = midx
                    else:
                        exp = {}
                        for s in ref.derivs:
                            try:
                                exp[s] = S.expected_update(ref, pt, res, s, dt, "euler" if fn == "explicit_euler" else "grl", 1e-8)[0]
                            except (E.Undefined, E.Undecidable, E.Unsupported) as exc:
                                exp[s] = exc
                        idx = sidx
                    for n, val in exp.items():
                        jv = C.judge(float(rec.out[idx[n]]), val)
                        if jv == "skip":
                            continue
                        compared += 1
                        if jv != "ok" and m0 is not None:
                            r0 = m0.call(fn, pt, dt=dt)
                            idx0 = m0.names("monitor") if fn == "monitor_values" else m0.names("state")
                            if r0.exc is not None or C.judge(float(r0.out[idx0[n]]), val) != "ok":
                                cn["disagreements_shared_with_original_model"] = cn.get("disagreements_shared_with_original_model", 0) + 1
                                continue
                        if jv != "ok" and (fn, n) not in seen:
                            seen.add((fn, n))
                            root = n if fn == "monitor_values" else ref.derivs[n]
                            out["violations"].append({"kind": "numerics_differ_after_reload", "subkind": fn, "detail": {"fn": fn, "name": root, "expr": ref.assigns[root].rhs[:200], "got": float(rec.out[idx[n]]), "expected": float(val.v), "tol": float(E.tolerance(val)),
                                                                                                            "saved_line": next((l for l in saved.split("\n") if l.startswith(root + " =")), None)}, "_point": dict(pt)})
            cn["compared"] = compared
            out["nontrivial"] = compared >= 2
            # second round trip (save o load o save o load)
            saved2, r2 = roundtrip(ode2, tempfile.mkdtemp(prefix="c11b-", dir=os.environ.get("VERIF_WORK")))
            if isinstance(r2, tuple):
                out["violations"].append({"kind": "second_roundtrip_" + r2[0], "detail": {"exc": r2[1].describe()[:300]}})
            elif saved2 != saved:
                cn["second_save_text_differs_informational"] = 1
    out["_ode"], out["_ref"] = ode, ref
    if out["violations"]:
        out["status"] = "violated"
    return out


def run_case(spec, ctx):
    rng = C.rng_for(spec)
    text = case_text(spec, rng)
    tier = spec.get("tier", "quick")
    out = check_model(text, rng, tier)
    if spec.get("exprs") and not spec.get("text") and any(v["kind"] in ("save_raises", "saved_file_rejected", "reloaded_model_cannot_be_generated") for v in out["violations"]):
        vs, okc = [], 0
        for e in spec["exprs"]:
            sub = check_model(classes.packed_model([e]), C.rng_for(spec, e), tier)
            okc += sub["counters"].get("compared", 0)
            out["evaluations"] += sub["evaluations"]
            for v in sub["violations"]:
                v["detail"]["expression"] = e
                v["text"] = classes.packed_model([e])
                vs.append(v)
        out["violations"], out["nontrivial"], out["status"] = vs, okc >= 2, ("violated" if vs else "held")
        out["counters"]["compared"] = okc
    ode, ref = out.pop("_ode", None), out.pop("_ref", None)
    for v in out["violations"]:
        F.classify(ID, v, text=v.get("text", text), ode=ode, ref=ref, saved=out.get("saved"))
        v.pop("_point", None)
    out["hash"] = models.structural_hash(text)
    out["model_text"] = text if out["violations"] and len(text) < 6000 else None
    if out["status"] in ("held", "violated") and spec["i"] % 9 == 0:
        out["sample"] = {"klass": spec["klass"], "model_text": text[:500], "saved_text": (out.get("saved") or "")[:500], "counters": {k: v for k, v in out["counters"].items() if k != "points"}, "status": out["status"]}
    out.pop("saved", None)
    return out


def summarise(records, tier, seed):
    ag = C.aggregate(records)
    cn = ag["counters"]
    cov = {
        "evaluations": ag["evaluations"],
        "distinct_nontrivial": len(ag["hashes"]),
        "rule": "construct table (exp(1), pi, sqrt(2), rationals, rational exponents, Not over every relation, And/Or/Not nests, nested and constant conditions, Abs/Mod/floor, ContinuousConditional, extreme "
        "literals, negative values), declared defaults over the decades 1e-290..1e300 in plain and ScalarParam form, an annotated multi-component model, comments, corpus, random models; evaluation = save + load (twice) and generated calls of the reloaded model; non-trivial = "
        ">= 2 values (monitor_values, explicit_euler, generalized_rush_larsen) of the reloaded model compared by name with the reference of the ORIGINAL text; distinct by structural hash",
        "samples": C.pick_samples(records),
        "per_class_cases": ag["classes"],
        "status": ag["status"],
        "atoms_compared": cn.get("atoms_compared", 0),
        "values_compared": cn.get("compared", 0),
        "second_save_text_differs_informational": cn.get("second_save_text_differs_informational", 0),
    }
    verdict = {}
    if len(ag["hashes"]) < (25 if tier == "quick" else 250):
        verdict["inconclusive"] = f"only {len(ag['hashes'])} non-trivial cases"
    return cov, C.BASE_ASSUMPTIONS + ["declared defaults are compared within 1e-14 relative (the writer prints 15 significant digits)", "models imported from Myokit/CellML are covered by C15"], verdict
