"""C05 - explicit Euler step equals states + dt * rhs (all back ends, all aliases)."""
from __future__ import annotations

import math
import os

from ..core import env
from ..exec import backends as B
from ..gen import classes, models, points
from ..gen.exprs import Profile
from ..refmodel import evalref as E
from ..refmodel import schemes as S
from ..refmodel.model import RefModel
from . import c01
from . import common as C
from . import findings as F

ID = "C05"
LEVEL = "exploration"
BUDGET = {"quick": 60, "thorough": 480}
DTS = [0.0, 1e-12, 1e-3, 0.1, 10.0, -0.1]
ENUM_ALIASES = ["explicit_euler", "forward_explicit_euler"]
DIRECT_ALIASES = ["explicit_euler", "forward_euler", "forward_explicit_euler", "euler"]
U = 2.0**-52


def plan(tier, seed):
    specs = []
    k = 0
    for be in ("numpy", "c", "jax"):
        for f in classes.corpus(env.REPO, big=False):
            specs.append({"klass": "corpus", "i": k, "file": os.path.relpath(f, env.REPO), "backend": be, "soft_timeout": 300})
            k += 1
    n = 360 if tier == "quick" else 4000
    for i in range(n):
        be = ("numpy", "c", "jax", "numpy")[i % 4]
        specs.append({"klass": "random", "i": i, "backend": be, "fill": i >= 24, "remove_unused": i % 5 == 0, "alias": ENUM_ALIASES[(i // 4) % 2], "both_aliases": i % 6 == 1})
    for i in range(8 if tier == "quick" else 40):
        specs.append({"klass": "alias_direct", "i": i, "backend": "numpy"})
    for i in range(10 if tier == "quick" else 80):
        # generator options: fixed output shape (numpy), many states (two-digit slots)
        specs.append({"klass": "shape_single", "i": 5000 + i, "backend": "numpy", "shape_opt": "single", "alias": ENUM_ALIASES[i % 2]})
    for i in range(9 if tier == "quick" else 60):
        specs.append({"klass": "many_states", "i": 6000 + i, "backend": ("jax", "numpy", "c")[i % 3], "n_states": 12 + i % 3, "alias": ENUM_ALIASES[i % 2], "soft_timeout": 300})
    for i in range(12 if tier == "quick" else 80):
        # a model revised and translated again in the same process under the same name: the same states in another dependency
        # order (one derivative reads another), the earlier revisions' code is generated first and discarded
        specs.append({"klass": "revisions", "i": 7000 + i, "backend": ("numpy", "c", "jax")[i % 3], "alias": ENUM_ALIASES[i % 2], "remove_unused": i % 4 == 3})
    for s in specs:
        s["prop"] = ID
    return specs


def revision_texts(rng, n_rev=3):
    """n_rev texts with the same states and parameters; in each, the derivatives form a chain in another random order
    (d<pi_k>_dt reads d<pi_(k-1)>_dt), which changes the dependency order of the states between revisions."""
    n = rng.choice([2, 3, 4])
    st = [f"x{i}" for i in range(n)]
    head = "parameters(a=1.5, b=0.25, c=-0.75)\nstates(" + ", ".join(f"{s}={v}" for s, v in zip(st, [1.0, 2.0, -0.5, 0.25])) + ")\n"
    texts, seen = [], set()
    while len(texts) < n_rev:
        pi = st[:]
        rng.shuffle(pi)
        if tuple(pi) in seen and len(seen) < math.factorial(n):
            continue
        seen.add(tuple(pi))
        lines = []
        for k, s in enumerate(pi):
            o = rng.choice([q for q in st if q != s])
            e = rng.choice([f"a * {o} - b * {s}", f"-b * {s} + c", f"a * {o} * {s} + 0.5", f"c * {o} + sin({s})"])
            if k > 0 and rng.random() < 0.8:
                e += f" + {rng.choice(['0.5 * ', '', '-2 * '])}d{pi[k - 1]}_dt"
            lines.append(f"d{s}_dt = {e}")
        texts.append(head + "\n".join(lines) + "\n")
    return texts


def direct_alias_module(ode, alias, remove_unused=False):
    """Module text with the scheme generated through CodeGenerator.scheme(get_scheme(alias))."""
    from gotranx.codegen.python import Format, PythonCodeGenerator
    from gotranx.schemes import get_scheme

    cg = PythonCodeGenerator(ode, format=Format.none, remove_unused=remove_unused)
    f = get_scheme(alias)
    parts = [cg.imports(), cg.parameter_index(), cg.state_index(), cg.monitor_index(), cg.rhs(), cg.scheme(f)]
    return "\n".join(parts), f.__code__.co_name


def run_case(spec, ctx):
    rng = C.rng_for(spec)
    out = {"violations": [], "counters": {}, "evaluations": 0, "nontrivial": False, "status": "held"}
    cn = out["counters"]
    if spec["klass"] == "corpus":
        text = open(os.path.join(env.REPO, spec["file"])).read()
    else:
        kw = {"n_states": spec["n_states"], "n_inter": 6} if spec.get("n_states") else {}
        prelude = []
        if spec["klass"] == "revisions":
            *prelude, last = revision_texts(rng)
            spec = dict(spec, text=last)
        text = spec.get("text") or models.gen_model(rng, Profile(hard_lits=False), depth=rng.choice([2, 3]) if not kw else 2, **kw).render(rng)
    out["hash"] = models.structural_hash(text) + ":" + spec["backend"]
    try:
        ref = RefModel.from_text(text)
    except E.Unsupported as exc:
        out.update(status="skipped", reason=f"reference_unsupported: {exc}")
        return out
    if ref.ill_formed():
        out.update(status="inconclusive", reason="generator produced an ill-formed model")
        return out
    lo = C.load_text(text)
    if not lo.ok:
        out.update(status="skipped", reason="rejected_by_loader: " + lo.describe())
        return out
    ode = lo.value
    be = spec["backend"]
    alias = spec.get("alias", "explicit_euler")
    rm = bool(spec.get("remove_unused"))
    if spec["klass"] != "corpus":
        for t0 in prelude:
            l0 = C.load_text(t0)
            if l0.ok:
                g0 = B.generate(be, l0.value, schemes=[alias], remove_unused=rm)
                cn["earlier_revisions_generated"] = cn.get("earlier_revisions_generated", 0) + int(g0.ok)
    mods = []
    try:
        if spec["klass"] == "alias_direct":
            for al in DIRECT_ALIASES:
                oc = C.call(direct_alias_module, ode, al, rm)
                if not oc.ok:
                    out["violations"].append({"kind": "codegen_raises", "detail": {"alias": al, "exc": oc.describe()}})
                    continue
                code, coname = oc.value
                if coname != al or f"def {al}(" not in code:
                    out["violations"].append({"kind": "function_not_named_by_alias", "detail": {"alias": al, "co_name": coname}})
                    continue
                mods.append((al, B.open_module("numpy", code, ref)))
        else:
            both = bool(spec.get("both_aliases"))
            opts = {}
            if spec.get("shape_opt"):
                from gotranx.codegen.base import Shape

                opts["shape"] = Shape(spec["shape_opt"])
            oc = B.generate(be, ode, schemes=[alias] if not both else ENUM_ALIASES, remove_unused=rm, **opts)
            if not oc.ok:
                if not B.generate(be, ode, schemes=None, remove_unused=rm).ok:
                    out.update(status="skipped", reason="module cannot be generated even without the scheme (C01-C03): " + oc.describe()[:120])
                    return out
                out["violations"].append({"kind": "codegen_raises", "detail": {"exc": oc.describe(), "site": C.trace_site(oc.exc, 4), "backend": be}})
                out["status"] = "violated"
                return finish(out, text, spec, ref, ode)
            code = oc.value
            out["code"] = code
            try:
                m = B.open_module(be, code, ref)
            except Exception as exc:
                out["violations"].append({"kind": "exec_fails", "detail": {"exc": f"{type(exc).__name__}: {exc}"[:300], "backend": be}})
                out["status"] = "violated"
                return finish(out, text, spec, ref, ode)
            if be == "c":
                if m.compile_errors:
                    errs = m.compile_errors[0][1][:3]
                    m.close()
                    base = B.generate(be, ode, schemes=None, remove_unused=rm)
                    m0 = B.open_module(be, base.value, ref)
                    base_bad = bool(m0.compile_errors)
                    m0.close()
                    if base_bad:
                        out.update(status="skipped", reason="C module does not compile even without the scheme (C02)")
                        return out
                    out["violations"].append({"kind": "compile_error", "detail": {"errors": errs, "backend": be}})
                    out["status"] = "violated"
                    return finish(out, text, spec, ref, ode)
                if not m.build():
                    m.close()
                    out.update(status="inconclusive", reason="driver build failed " + m.build_err[-200:])
                    return out
            want_fns = [alias] if not both else list(ENUM_ALIASES)
            if be == "c" and both and m.compile_errors:
                pass
            for wf in want_fns:
                if not m.has(wf):
                    out["violations"].append({"kind": "function_not_named_by_alias", "subkind": "both" if both else "single", "detail": {"alias": wf, "requested": want_fns, "functions": m.functions()[:12], "backend": be}})
                else:
                    mods.append((wf, m))
        pts, st = points.sample(ref, rng, want=6 if spec.get("tier") == "quick" else 12, max_draws=50)
        cn["points"] = st
        if len(pts) < 2:
            out.update(status="skipped", reason="too few decidable points")
            return out
        for al, m in mods:
            sidx = m.maps(ref)["state"]
            calls = []
            meta = []
            for j, (pt, res, dec) in enumerate(pts):
                calls.append(("rhs", pt, None, None))
                meta.append(("rhs", j, None))
                for dt in (DTS if j < 3 else [DTS[j % len(DTS)], 0.0]):
                    calls.append((al, pt, dt, None))
                    meta.append((al, j, dt))
            rs = m.run(calls)
            rhs_at = {}
            cmp_self = cmp_ref = 0
            for (fn, j, dt), r in zip(meta, rs):
                out["evaluations"] += 1
                pt, res, dec = pts[j]
                if r.exc is not None:
                    if fn == "rhs":
                        rhs_at[j] = None
                        continue
                    if rhs_at.get(j, 0) is None or any(isinstance(res[dn], (E.Undefined, E.Unsupported)) for dn in ref.derivs.values()):
                        cn["raises_like_own_rhs"] = cn.get("raises_like_own_rhs", 0) + 1
                        continue
                    if len(out["violations"]) < 6:
                        out["violations"].append({"kind": "scheme_raises", "detail": {"fn": fn, "exc": r.exc, "san": r.san, "dt": dt, "backend": be, "point": pt if len(pt) < 14 else None}})
                    continue
                if r.mutated and len(out["violations"]) < 6:
                    out["violations"].append({"kind": "inputs_modified", "detail": {"fn": fn, "backend": be}})
                if r.canary and len(out["violations"]) < 6:
                    out["violations"].append({"kind": "slot_not_written", "detail": {"fn": fn, "slots": r.canary[:8], "backend": be}})
                if fn == "rhs":
                    rhs_at[j] = r.out
                    continue
                if len(r.out) != len(ref.states):
                    out["violations"].append({"kind": "shape", "detail": {"fn": fn, "len": len(r.out), "n_states": len(ref.states), "backend": be}})
                    continue
                for s, i in sidx.items():
                    got = r.out[i]
                    x = pt[s]
                    # (a) identity against the same module's rhs output: two IEEE operations
                    if rhs_at.get(j) is not None:
                        f = rhs_at[j][i]
                        if math.isfinite(f) and math.isfinite(x + dt * f):
                            cmp_self += 1
                            # two IEEE operations, plus a few ulp of f itself: a jitted step recomputes f inside another
                            # compiled kernel (other vectorised exp/log code paths), so f is not bit-identical to rhs()'s
                            # (XLA evaluates pow / exp / log of the fused step with other code paths than in rhs: observed up to
                            # 200 ulp of f for x**y; numpy and C execute the very same expression in both functions)
                            bound = 4 * U * max(abs(x), abs(dt * f)) + (1e-12 if be == "jax" else 64 * U) * abs(dt * f) + 1e-300
                            if not (abs(got - (x + dt * f)) <= bound):
                                if len(out["violations"]) < 6:
                                    out["violations"].append({"kind": "not_x_plus_dt_rhs", "detail": {"fn": fn, "state": s, "x": x, "dt": dt, "rhs": f, "got": got, "want": x + dt * f, "backend": be}})
                            if dt == 0.0 and got != x and len(out["violations"]) < 6:
                                out["violations"].append({"kind": "dt0_changes_state", "detail": {"fn": fn, "state": s, "x": x, "got": got, "rhs": f, "backend": be}})
                    # (b) against the reference
                    try:
                        val, _ = S.expected_update(ref, pt, res, s, dt, "euler")
                    except (E.Undefined, E.Undecidable, E.Unsupported):
                        continue
                    jv = C.judge(got, val)
                    if jv == "skip":
                        continue
                    cmp_ref += 1
                    if jv != "ok":
                        cn["reference_disagreements_informational"] = cn.get("reference_disagreements_informational", 0) + 1
                    if False and jv != "ok" and C.triage(ref, pt, ref.derivs[s], (got - x) / dt if dt else 0.0) != "fragile" and dt != 0:
                        if len(out["violations"]) < 6:
                            out["violations"].append({"kind": "value", "detail": {"fn": fn, "state": s, "name": ref.derivs[s], "x": x, "dt": dt, "got": got, "expected": float(val.v), "tol": float(E.tolerance(val)), "backend": be,
                                                                               "expr": ref.assigns[ref.derivs[s]].rhs[:200], "point": pt if len(pt) < 14 else None}})
            cn["compared_with_own_rhs"] = cn.get("compared_with_own_rhs", 0) + cmp_self
            cn["compared_with_reference"] = cn.get("compared_with_reference", 0) + cmp_ref
            cn.setdefault("by_backend", {})
            cn["by_backend"][be] = cn["by_backend"].get(be, 0) + cmp_self
            cn.setdefault("aliases", {})
            cn["aliases"][al] = cn["aliases"].get(al, 0) + 1
            if be == "c":
                info = m.info.get("asan", {})
                cn["ubsan_reports"] = info.get("ubsan_reports", 0)
                if info.get("ubsan_reports"):
                    out["violations"].append({"kind": "ubsan", "detail": {"first": info.get("ubsan_first"), "backend": be}})
        out["nontrivial"] = cn.get("compared_with_own_rhs", 0) >= 4
    finally:
        for m in {id(m): m for _, m in mods}.values():
            m.close()
    if out["violations"]:
        out["status"] = "violated"
    return finish(out, text, spec, ref, ode)


def finish(out, text, spec, ref, ode):
    feats = models.features(text)
    for v in out["violations"]:
        F.classify(ID, v, text=text, features=feats, code=out.get("code"), ode=ode, ref=ref, backend=spec.get("backend"))
    out["model_text"] = text if out["violations"] else None
    if spec["i"] % 11 == 0 and out["status"] in ("held", "violated"):
        out["sample"] = {"klass": spec["klass"], "backend": spec["backend"], "alias": spec.get("alias"), "model_text": text[:800], "counters": {k: v for k, v in out["counters"].items() if k != "points"}, "status": out["status"]}
    out.pop("code", None)
    return out


def summarise(records, tier, seed):
    ag = C.aggregate(records)
    cn = ag["counters"]
    cov = {
        "evaluations": ag["evaluations"],
        "distinct_nontrivial": len(ag["hashes"]),
        "rule": "random + corpus models (+ fixed output shape, >= 12 states, and revisions of one model - same name and states, another dependency order - translated one after the other in the process) x backend {numpy, jax, C(ASan+UBSan)} x alias; evaluation = one generated call; non-trivial = >= 4 state slots "
        "checked against x + dt*rhs of the same module (bound 4u*max(|x|,|dt f|)); distinct by (structural hash, backend)",
        "samples": C.pick_samples(records),
        "per_class_cases": ag["classes"],
        "status": ag["status"],
        "slots_compared_with_own_rhs": cn.get("compared_with_own_rhs", 0),
        "slots_compared_with_reference": cn.get("compared_with_reference", 0),
        "by_backend": cn.get("by_backend", {}),
        "aliases_exercised": cn.get("aliases", {}),
        "dt_values": DTS,
    }
    verdict = {}
    if len(ag["hashes"]) < (30 if tier == "quick" else 300):
        verdict["inconclusive"] = f"only {len(ag['hashes'])} distinct non-trivial cases"
    for be in ("numpy", "jax", "c"):
        if not cn.get("by_backend", {}).get(be):
            verdict["inconclusive"] = f"backend {be} was never compared"
    return cov, C.BASE_ASSUMPTIONS, verdict
