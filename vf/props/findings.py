"""Known-finding matchers: classify a violation by *mechanism* (never by case hash or values).

classify() sets v["finding"] to the id of a mechanism if - and only if - the mechanism's own
predicate (and, where it predicts a value, its predictive re-evaluation) reproduces the
observation.  Whether that id actually suppresses anything is decided by known_findings.json
(status "open" for the property); an id not listed there is reported as a violation.
"""
from __future__ import annotations

import re

MATCHERS = {}


def matcher(prop):
    def deco(fn):
        MATCHERS.setdefault(prop, []).append(fn)
        return fn

    return deco


def classify(prop, v, **ctx):
    v.setdefault("finding", None)
    if v.get("finding"):
        return v["finding"]
    generic = (history_dependent_rounding_fold, inconsistent_assumptions_after_history, negated_literal_zero, imaginary_unit_in_generated_code, divisor_folded_to_zero, python_float_division_by_zero, inverse_trig_of_constant_generic, trig_of_inverse_trig_overflow, saturated_sigmoid_linearisation, float64_overflow_counterfactual)
    for fn in MATCHERS.get(prop, []) + list(generic):
        try:
            fid = fn(v, prop=prop, **ctx) if fn in generic else fn(v, **ctx)
        except Exception:
            fid = None
        if fid:
            v["finding"] = fid
            return fid
    return None


def divisor_folded_to_zero(v, prop="", text="", **kw):
    """A divisor that sympy evaluates to exactly 0 when the model is loaded (a literal 0, Mod(tau, tau), x - x in a branch)
    turns the quotient into zoo (ComplexInfinity), which no printer knows: code generation raises (loud)."""
    if prop not in ("C01", "C02", "C03") or v.get("kind") not in ("codegen_raises", "generation_raises"):
        return None
    exc = (v.get("detail") or {}).get("exc") or ""
    if "ComplexInfinity" in exc or re.search(r"(?<![\w.])zoo(?![\w.])", exc):
        return f"{prop}-divisor-folded-to-zero-becomes-zoo"
    if ("Invalid NaN comparison" in exc or "Invalid comparison of non-real" in exc) and divides_by_constant_zero(kw.get("ref")):
        # the quotient by a constant zero sits inside a condition: sympy cannot compare zoo / nan
        return f"{prop}-divisor-folded-to-zero-becomes-zoo"
    return None


def imaginary_unit_in_generated_code(v, prop="", text="", ref=None, **kw):
    """A constant sub-expression that sympy evaluates over the complex numbers, e.g. (-floor(0.1)) ** 0.5 = sqrt(-1*0) ->
    0*(1.0*I), leaves the imaginary unit I in the generated text although the real value (0) is fine: NameError in Python,
    'I undeclared' in C."""
    if prop not in ("C01", "C02", "C03"):
        return None
    d = v.get("detail") or {}
    msg = (d.get("exc") or "") + " ".join(str(e) for e in (d.get("errors") or []))
    hit = "name 'I' is not defined" in msg or re.search(r"[‘'`]I[’'`] undeclared|undeclared identifier 'I'", msg)
    if hit and not (ref is not None and ("I" in ref.assigns or "I" in ref.states or "I" in ref.params)):
        return f"{prop}-imaginary-unit-from-a-constant-subexpression"
    return None


def negated_literal_zero(v, prop="", text="", ref=None, **kw):
    """`x - (0)` / `-0` is kept as the unevaluated product (-1)*0, an "integer" that sympy's assumption system holds to be
    negative and zero at once: Mod(x - (0), 2) is folded to 0 (the sum is taken for an even integer), other operations raise
    InconsistentAssumptions.  Predicate: the closure of the violating quantity subtracts / negates a constant sub-expression
    whose value is exactly 0."""
    import ast

    if prop not in ("C01", "C02", "C03") or ref is None or v.get("kind") not in ("value", "raises", "rhs_raises", "codegen_raises"):
        return None
    d = v.get("detail", {})
    name = (d.get("root_cause") or {}).get("name") or d.get("name")
    if name in ref.derivs:
        name = ref.derivs[name]
    names = closure_names(ref, name) if name in ref.assigns else set(ref.assigns)
    pt = v.get("_point") or d.get("point") or {}
    ev = ref.evaluator(dict(ref.default_point(), **pt))

    def const_zero(node, src):
        # a constant sub-expression that is exactly 0, or a product with a literal factor 0 such as 0*x_dt
        fn_ids = {id(c.func) for c in ast.walk(node) if isinstance(c, ast.Call)}
        has_names = any(isinstance(q, ast.Name) and id(q) not in fn_ids and q.id != "pi" for q in ast.walk(node))
        if has_names and not any(isinstance(q, ast.Constant) and q.value == 0 for q in ast.walk(node)):
            return False
        try:
            r = ev.expr(node, src)
            return r.v == 0 and r.e == 0
        except Exception:
            return False

    for n in names:
        for k in ast.walk(ref._parsed[n]):
            if isinstance(k, ast.BinOp) and isinstance(k.op, ast.Sub) and const_zero(k.right, ref._src[n]):
                return f"{prop}-negated-literal-zero-confuses-sympy-assumptions"
            if isinstance(k, ast.UnaryOp) and isinstance(k.op, ast.USub) and const_zero(k.operand, ref._src[n]):
                return f"{prop}-negated-literal-zero-confuses-sympy-assumptions"
    return None


def python_float_division_by_zero(v, prop="", text="", **kw):
    """`ZeroDivisionError: float division by zero` (or `float modulo`) can only come from Python floats: a sub-expression made
    of constants only (literals, constant intermediates such as f1 = 1 + 0.1) is evaluated by Python itself, eagerly, also
    in the branch of a Conditional that is not selected; with arrays the same quotient is inf / nan and where() discards it."""
    if prop not in ("C01", "C03", "C05", "C06", "C07", "C12", "C14") or v.get("kind") not in ("raises", "rhs_raises", "scheme_raises", "batch_raises"):
        return None
    exc = (v.get("detail") or {}).get("exc") or ""
    if "ZeroDivisionError: float division by zero" in exc or "ZeroDivisionError: float modulo" in exc or "ZeroDivisionError: division by zero" in exc:
        return f"{prop}-constant-subexpression-divides-by-zero-in-python"
    return None


def inverse_trig_of_constant_generic(v, prop="", text="", ref=None, **kw):
    if prop != "C03" or v.get("kind") != "value" or ref is None:
        return None
    d = v.get("detail", {})
    root = d.get("name")
    if root in ref.derivs:
        root = ref.derivs[root]
    if root in ref.assigns and inverse_trig_of_constant(ref, root):
        return "C03-inverse-trig-of-constant-rewritten-with-cancellation"
    return None


_COMPOSITIONS = {("sin", "atan"), ("cos", "atan"), ("sin", "acos"), ("cos", "asin"), ("tan", "asin"), ("tan", "acos")}


def trig_of_inverse_trig_overflow(v, prop="", text="", ref=None, **kw):
    """sympy rewrites sin(atan(x)) -> x/sqrt(x**2 + 1) (and the like) when the expression is built: for |x| > 1e154 the
    square overflows and the generated code returns 0 / nan / inf where the composition is simply +-1.  Predicate: the
    violating quantity's closure holds such a composition whose inner argument exceeds 1e150 at the violating point."""
    import ast

    if prop not in ("C01", "C02", "C03") or v.get("kind") != "value" or ref is None:
        return None
    d = v.get("detail", {})
    pt = v.get("_point") or d.get("point")
    name = (d.get("root_cause") or {}).get("name") or d.get("name")
    if name in ref.derivs:
        name = ref.derivs[name]
    if not pt or name not in ref.assigns:
        return None
    full = dict(ref.default_point(), **pt)
    ev = ref.evaluator(full)
    for n in closure_names(ref, name):
        for k in ast.walk(ref._parsed[n]):
            if isinstance(k, ast.Call) and k.args and isinstance(k.args[0], ast.Call):
                f, g = getattr(k.func, "id", ""), getattr(k.args[0].func, "id", "")
                if (f, g) in _COMPOSITIONS and k.args[0].args:
                    try:
                        inner = ev.expr(k.args[0].args[0], ref._src[n])
                    except Exception:
                        continue
                    if abs(inner.v) > 1e150:
                        return f"{prop}-trig-of-inverse-trig-rewritten-algebraically-overflows"
    return None


def saturated_sigmoid_linearisation(v, prop="", text="", ref=None, **kw):
    """The Rush-Larsen linearisation of a saturated ContinuousConditional is inf/inf = nan, `abs(nan) > delta` is false and
    the generated step is the Euler step (listed for C06; the same executions are seen by every check that compares a
    Rush-Larsen step with the reference)."""
    if prop not in ("C02", "C03") or v.get("kind") != "value" or ref is None or "ContinuousConditional" not in text:
        return None
    d = v.get("detail", {})
    if d.get("fn") not in ("generalized_rush_larsen", "hybrid_rush_larsen"):
        return None
    pt = v.get("_point") or d.get("point")
    name = d.get("name")
    state = name if name in ref.derivs else next((s_ for s_, dn in ref.derivs.items() if dn == name), None)
    got = d.get("got", d.get("asan_build"))
    if not pt or state is None or got is None or d.get("dt") is None:
        return None
    from ..refmodel import evalref as E
    from ..refmodel import schemes as S

    full = dict(ref.default_point(), **pt)
    try:
        res, _ = ref.evaluate(full)
        eu = S.expected_update(ref, full, res, state, d["dt"], "euler", 1e-8)[0]
        before = E.COUNTERS.get("saturated_sigmoid", 0)
        S.own_g(ref, full, state)
    except Exception:
        return None
    if E.COUNTERS.get("saturated_sigmoid", 0) > before and abs(got - float(eu.v)) <= 1e-9 * max(1.0, abs(float(eu.v))):
        return f"{prop}-linearisation-of-saturated-sigmoid-is-nan"
    return None


def float64_overflow_counterfactual(v, prop="", text="", ref=None, ode=None, **kw):
    """Counterfactual for extreme inputs: the numpy module generated for the same model, executed with numpy.longdouble
    inputs (x87 extended: range 1e4932, so no intermediate of a float64-representable problem overflows), returns the
    expected value, while with float64 inputs it does not.  Then the symbolic form is right and only the float64 range
    of an intermediate (a square, an exponential, inf/inf, ...) of the rewritten expression is exceeded."""
    import warnings

    import numpy as np

    if prop not in ("C01", "C02", "C03", "C06") or v.get("kind") != "value" or ref is None or ode is None:
        return None
    d = v.get("detail", {})
    pt = v.get("_point") or d.get("point")
    if not pt or d.get("expected") is None:
        return None
    fn = d.get("fn") or ("generalized_rush_larsen" if prop == "C06" else "rhs")
    if fn not in ("rhs", "monitor_values", "explicit_euler", "generalized_rush_larsen", "hybrid_rush_larsen"):
        return None
    name = d.get("state") or d.get("name")
    from ..exec.pyexec import PyModule
    from . import common as C

    opts = {}
    if fn == "hybrid_rush_larsen":
        opts["stiff_states"] = sorted(ref.states)
    if d.get("delta") is not None:
        opts["delta"] = d["delta"]
    oc = C.py_code(ode, schemes=[fn] if fn not in ("rhs", "monitor_values") else None, **opts)
    if not oc.ok:
        return None
    mod = PyModule(oc.value)
    full = dict(ref.default_point(), **pt)
    kindmap = "monitor" if fn == "monitor_values" else "state"
    idx = mod.names(kindmap)
    key = name if name in idx else next((s_ for s_, dn in ref.derivs.items() if dn == name and s_ in idx), None)
    if key is None:
        return None
    tol = max(float(d.get("tol") or 0.0), 1e-9 * abs(d["expected"]))
    res = {}
    for dtype in (np.float64, np.longdouble):
        sidx, pidx = mod.names("state"), mod.names("parameter")
        s_ = np.zeros(len(sidx), dtype=dtype)
        p_ = np.zeros(len(pidx), dtype=dtype)
        for n_, i_ in sidx.items():
            s_[i_] = full[n_]
        for n_, i_ in pidx.items():
            p_[i_] = full[n_]
        t_ = dtype(full["t"])
        args = [t_, s_, p_] if fn in ("rhs", "monitor_values") else [s_, t_, dtype(d.get("dt") or 0.0), p_]
        try:
            with warnings.catch_warnings():
                warnings.simplefilter("ignore")
                with np.errstate(all="ignore"):
                    res[dtype] = float(np.asarray(mod.ns[fn](*args))[idx[key]])
        except Exception:
            return None
    ok64 = abs(res[np.float64] - d["expected"]) <= tol
    okld = abs(res[np.longdouble] - d["expected"]) <= tol
    if okld and not ok64:
        return f"{prop}-float64-overflow-of-an-intermediate-of-the-rewritten-expression"
    return None


def fresh_child(job, timeout=600):
    import json
    import subprocess

    from ..core import env

    e = env.child_env("0")
    e["VERIF_REPO"] = env.REPO
    p = subprocess.run(["/venv/bin/python", "-m", "vf.exec.fresh"], input=json.dumps(job), capture_output=True, text=True, env=e, cwd=env.VERIF, timeout=timeout)
    for ln in p.stdout.splitlines():
        if ln.startswith("RESULT "):
            return json.loads(ln[7:])
    return None


def inconsistent_assumptions_after_history(v, prop="", text="", **kw):
    """sympy raises InconsistentAssumptions from its assumption cache in a long-lived process (same family as the
    history-dependent floor fold).  Counterfactual: the same text handled by a FRESH interpreter does not raise."""
    d = v.get("detail", {})
    exc = d.get("exc") or ""
    if "InconsistentAssumptions" not in exc or not text:
        return None
    # The inconsistent assumptions are a property of the process, not only of its history: a fresh interpreter can meet them
    # as well (tools/sympy_floor_fresh.py), so one raising child decides nothing.  A text on which gotranx raises in every
    # process is not this mechanism: all of the children must be tried and all must raise for the violation to stand.
    be = d.get("backend") or "numpy"
    for _ in range(4):
        if prop == "C20":
            r = fresh_child({"text": text, "requests": [], "try_matrices": True})
            if r and r.get("matrices") and all(x == "ok" for x in r["matrices"].values()):
                return f"{prop}-sympy-inconsistent-assumptions-after-history"
        else:
            r = fresh_child({"text": text, "requests": [{"key": "k", "backend": be if be in ("numpy", "jax", "c") else "numpy", "schemes": ["explicit_euler", "generalized_rush_larsen"]}]})
            if r and not r.get("errors") and r.get("sha"):
                return f"{prop}-sympy-inconsistent-assumptions-after-history"
    return None


def rounding_nodes(ex):
    import sympy

    return len(ex.atoms(sympy.floor)) + len(ex.atoms(sympy.ceiling))


def load_with_rounding_unevaluated(text):
    """The same text loaded by gotranx with sympy.floor / sympy.ceiling built unevaluated, so that no rounding node is
    folded while the expression is built (gotranx looks the functions up as attributes of the sympy module)."""
    import sympy

    from . import common as C

    C.gx()
    of, oc = sympy.floor, sympy.ceiling

    def keep(cls):
        def build(*a, **k):
            return cls(*a, evaluate=False)

        return build

    sympy.floor, sympy.ceiling = keep(of), keep(oc)
    try:
        return C.load_text(text)
    finally:
        sympy.floor, sympy.ceiling = of, oc


def numeric_value(ex, vals):
    """Value of a sympy expression with every free symbol replaced by a Float (the replacement rebuilds - and so
    evaluates numerically - every node above a symbol)."""
    import sympy

    rep = {s_: sympy.Float(vals(s_.name)) for s_ in ex.free_symbols}
    r = sympy.N(ex.xreplace(rep) if rep else ex, 30)
    r = complex(r)
    if r.imag != 0 or r.real != r.real or abs(r.real) == float("inf"):
        raise ValueError("not a finite real")
    return r.real


def wrongly_folded_rounding(ode, text, name, known=None):
    """-> name of an assignment in the closure of `name` whose symbolic stage in `ode` (a) holds fewer floor/ceiling nodes
    than the stage of the same text loaded with the rounding functions kept unevaluated and (b) is a different function:
    the two stages differ in value at an assignment of their free symbols.  (a)+(b) = a rounding node was folded to a wrong
    constant while the expression was built.  A legitimate fold (floor(2.5) -> 2, floor(floor(x)) -> floor(x)) has (a) only."""
    lu = load_with_rounding_unevaluated(text)
    if not lu.ok:
        return None
    un = lu.value
    known = known or {}
    fallbacks = (lambda n: known.get(n, 0.37), lambda n: 1.3 + (sum(map(ord, n)) % 7) / 8, lambda n: -0.8 - (sum(map(ord, n)) % 5) / 4, lambda n: 0.37)
    seen, todo = set(), [name]
    while todo:
        k = todo.pop()
        if k in seen:
            continue
        seen.add(k)
        try:
            eh, eu = ode[k].expr, un[k].expr
        except Exception:
            continue
        for s_ in eh.free_symbols | eu.free_symbols:
            if s_.name in ode._lookup and hasattr(ode._lookup[s_.name], "expr"):
                todo.append(s_.name)
        if rounding_nodes(eh) >= rounding_nodes(eu):
            continue
        for vals in fallbacks:
            try:
                a, b = numeric_value(eh, vals), numeric_value(eu, vals)
            except Exception:
                continue
            if abs(a - b) > 1e-9 * (1.0 + abs(b)):
                return {"assignment": k, "folded_stage": str(eh)[:200], "unevaluated_stage": str(eu)[:200], "values": [a, b]}
    return None


def history_dependent_rounding_fold(v, prop="", text="", ref=None, **kw):
    """sympy folds floor()/ceiling() of some bounded arguments (floor(0*beta7), floor(0.25/(Abs(E)+0.75))) to a constant
    while the expression is built, and the constant is not a function of the text: it depends on what the process evaluated
    before (tools/sympy_floor_history.py) and it also varies between fresh interpreters (tools/sympy_floor_fresh.py: the
    assumptions of an unevaluated product such as Mul(0, x, evaluate=False) are inconsistent - is_zero False, is_negative
    True - in about one process out of five).  An earlier version decided this by a fresh-interpreter counterfactual; the
    fresh interpreter being as unreliable as the worker, the decision is now made in this process and deterministically:
    the object the violating code was generated from holds a wrongly folded rounding node (wrongly_folded_rounding) in the
    closure of the violating quantity."""
    d = v.get("detail", {})
    name = (d.get("root_cause") or {}).get("name") or d.get("name")
    if not text or not name or v.get("kind") not in ("value", "numerics_differ_after_reload", "value_differs", "column_differs", "sub_model_value_differs_from_full_model", "wrong_slot_or_value", "value_differs_from_renamed_twin"):
        return None
    from . import common as C

    cands = []
    if kw.get("ode") is not None:  # the object the violating code was generated from, if the check handed it over
        cands.append((kw["ode"], text))
    else:
        cands.append((None, text))
    if isinstance(kw.get("saved"), str) and kw["saved"] != text:  # C11: the model re-loaded from the saved text
        cands.append((None, kw["saved"]))
    known = {}
    pt = v.get("_point") or d.get("point")
    if ref is not None:
        try:
            full = dict(ref.default_point(), **(pt or {}))
            known.update({k: float(x) for k, x in full.items()})
            known["time"] = known.get("t", 0.0)
            for k, x in ref.evaluate(full)[0].items():
                if not isinstance(x, Exception):
                    known[k] = float(x.v)
        except Exception:
            pass
    for ode, txt in cands:
        if count_calls(txt, ["floor", "ceil", "ceiling"]) == 0:
            continue
        if ode is None:
            lo = C.load_text(txt)
            if not lo.ok:
                continue
            ode = lo.value
        nm = name
        if nm not in ode._lookup:
            nm = f"d{name}_dt"  # scheme functions report the state: use its derivative
            if nm not in ode._lookup:
                continue
        w = wrongly_folded_rounding(ode, txt, nm, known)
        if w:
            d["wrongly_folded_rounding_node"] = w
            return f"{prop}-sympy-folds-floor-to-a-history-dependent-constant"
    return None


# ------------------------------------------------------------------ shared predicates

def closure_names(ref, name):
    seen, todo = set(), [name]
    while todo:
        n = todo.pop()
        if n in seen or n not in ref.assigns:
            continue
        seen.add(n)
        todo.extend(ref.deps[n])
    return seen


def folded_constant_out_of_range(ode, ref, names):
    """A Float atom outside float64's normal range in the symbolic stage of `names`
    (sympy folded e.g. exp(x + c) -> exp(c)*exp(x) with exp(c) beyond 1e308)."""
    import sympy

    for top in names:
        for n in closure_names(ref, top):
            try:
                ex = ode[n].expr
            except Exception:
                continue
            for f in ex.atoms(sympy.Float):
                a = abs(f)
                if a > sympy.Float("1e300") or (a != 0 and a < sympy.Float("1e-300")):
                    return True
    return False


class NumpyFloatWhere:
    """numpy proxy whose where() returns float64: the counterfactual 'integer literal
    branches printed as floats'."""

    def __init__(self, base=None):
        if base is None:
            import numpy as base
        self._np = base

    def __getattr__(self, k):
        return getattr(self._np, k)

    def where(self, c, a, b):
        return self._np.asarray(self._np.where(c, a, b)).astype(self._np.float64)


def int_where_counterfactual(code, fn, ref, pts, judge_fn):
    """Re-run the generated code with where() forced to float64.  True iff the function then
    neither raises nor disagrees with the reference at any decidable point."""
    from ..exec.pyexec import PyModule

    mod = PyModule(code)
    mod.ns["numpy"] = NumpyFloatWhere(mod.ns.get("numpy"))
    return judge_fn(mod)


def has_int_branch_conditional(text):
    import ast
    import re

    from ..refmodel.model import RefModel

    try:
        ref = RefModel.from_text(text)
    except Exception:
        return False
    for node in ref._parsed.values():
        for n in ast.walk(node):
            if isinstance(n, ast.Call) and getattr(n.func, "id", "") == "Conditional" and len(n.args) == 3:
                ok = True
                for br in n.args[1:]:
                    b = br
                    while isinstance(b, ast.UnaryOp):
                        b = b.operand
                    if not (isinstance(b, ast.Constant) and isinstance(b.value, int)) and not (
                        isinstance(b, ast.Call) and getattr(b.func, "id", "") == "Conditional"
                    ):
                        ok = False
                if ok:
                    return True
    return False


def huge_integer_atom(ode, ref, names):
    """A sympy Integer >= 2**63 in the symbolic stage (written or computed, e.g. 3**67)."""
    import sympy

    for top in names:
        for n in closure_names(ref, top):
            try:
                ex = ode[n].expr
            except Exception:
                continue
            for f in ex.atoms(sympy.Integer):
                if abs(int(f)) >= 2**63:
                    return True
    return False


def int_branch_in_closure(ref, name):
    from ..refmodel.model import RefModel

    for n in closure_names(ref, name):
        if has_int_branch_conditional(f"states(zz=1)\ndzz_dt = {ref.assigns[n].rhs}\n"):
            return True
    return False


def has_huge_int_literal(text):
    import re

    for m in re.finditer(r"(?<![\w.])(\d{19,})(?![\w.])", text):
        if int(m.group(1)) >= 2**63:
            return True
    return False


def int_arithmetic_exceeds_int64(code):
    """Generated Python code holds an integer-only arithmetic subexpression (e.g. (-4503599627370497)*(-4503599627370497) + 1)
    whose value does not fit int64: numpy then receives a Python int it cannot convert."""
    import ast

    try:
        tree = ast.parse(code or "")
    except SyntaxError:
        return False

    def value(n):
        if isinstance(n, ast.Constant) and type(n.value) is int:
            return n.value
        if isinstance(n, ast.UnaryOp) and isinstance(n.op, (ast.USub, ast.UAdd)):
            v = value(n.operand)
            return None if v is None else (-v if isinstance(n.op, ast.USub) else v)
        if isinstance(n, ast.BinOp) and isinstance(n.op, (ast.Add, ast.Sub, ast.Mult, ast.Pow)):
            a, b = value(n.left), value(n.right)
            if a is None or b is None:
                return None
            if isinstance(n.op, ast.Pow):
                if b < 0 or b > 400 or abs(a) > 10**30:
                    return None
                return a**b
            return a + b if isinstance(n.op, ast.Add) else a - b if isinstance(n.op, ast.Sub) else a * b
        return None

    for n in ast.walk(tree):
        v = value(n)
        if v is not None and abs(v) >= 2**63:
            return True
    return False


def without_simplify_counterfactual(ode, recheck):
    """Regenerate the numpy module with sympy.simplify (as called from _print_Piecewise) replaced by the
    identity - in this harness process only - and re-run the case's comparison."""
    import sympy

    from ..exec.pyexec import PyModule
    from . import common as C

    orig = sympy.simplify
    try:
        sympy.simplify = lambda e, *a, **k: e
        oc = C.py_code(ode)
    finally:
        sympy.simplify = orig
    if not oc.ok:
        return False
    return recheck(PyModule(oc.value))


def inverse_trig_of_constant(ref, name):
    import ast

    for n in closure_names(ref, name):
        for k in ast.walk(ref._parsed[n]):
            if isinstance(k, ast.Call) and getattr(k.func, "id", "") in ("asin", "acos", "atan") and k.args:
                inner = k.args[0]
                if isinstance(inner, ast.Call) and getattr(inner.func, "id", "") in ("sin", "cos", "tan"):
                    fnodes = {id(c.func) for c in ast.walk(inner) if isinstance(c, ast.Call)}
                    if not any(isinstance(q, ast.Name) and id(q) not in fnodes and q.id != "pi" for q in ast.walk(inner)):
                        return True
    return False


@matcher("C01")
def c01_matchers(v, text="", features=None, ode=None, ref=None, code=None, recheck=None, **kw):
    d = v.get("detail", {})
    exc = d.get("exc", "") or ""
    kind = v.get("kind")
    names = [d["name"]] if d.get("name") else (list(ref.assigns) if ref else [])
    if kind in ("value", "rhs_raises") and ode is not None and ref is not None:
        if (kind == "value" or "name 'inf'" in exc or "name 'nan'" in exc) and folded_constant_out_of_range(ode, ref, names):
            return "C01-folded-constant-out-of-float-range"
    if kind == "rhs_raises" and ("loop of ufunc does not support argument 0 of type int" in exc or "Python int too large to convert to C long" in exc) and (has_huge_int_literal(text) or has_huge_int_literal(code or "") or int_arithmetic_exceeds_int64(code) or (ode is not None and ref is not None and huge_integer_atom(ode, ref, list(ref.assigns)))):
        return "C01-huge-int-literal-in-numpy-call"
    root = (d.get("root_cause") or {}).get("name") or d.get("name")
    if kind == "value" and ref is not None and root in ref.assigns and ode is not None:
        import sympy

        if inverse_trig_of_constant(ref, root) and ode[root].expr.has(sympy.pi):
            return "C01-inverse-trig-of-constant-rewritten-with-cancellation"
    if kind == "value" and ode is not None and recheck:
        try:
            if without_simplify_counterfactual(ode, recheck):
                return "C01-simplify-rewrites-through-complex-identity"
        except Exception:
            pass
    if kind == "rhs_raises" and code and "Integers to negative integer powers" in exc and d.get("point") and has_int_branch_conditional(text):
        # counterfactual on this very exception: with where() forced to float64 the same call at the same point no longer raises it
        from ..exec.pyexec import PyModule

        try:
            mod = PyModule(code)
            mod.ns["numpy"] = NumpyFloatWhere(mod.ns.get("numpy"))
            full = dict(ref.default_point(), **d["point"]) if ref is not None else d["point"]
            rec = mod.call("rhs", full)
            if rec.exc is None or "Integers to negative integer powers" not in str(rec.exc):
                return "C01-integer-branches-make-int64-where"
        except Exception:
            pass
    if kind in ("value", "rhs_raises") and code and recheck and has_int_branch_conditional(text):
        if kind == "value" or "Integers to negative integer powers" in exc:
            try:
                if int_where_counterfactual(code, "rhs", ref, None, recheck):
                    return "C01-integer-branches-make-int64-where"
            except Exception:
                return None
    return None


HUGE_INT_TEXTS = (
    "loop of ufunc does not support argument 0 of type int",
    "Python int too large to convert to C long",
    "too large to convert to int64",
    "An overflow was encountered while parsing an argument to a jitted computation",
)


@matcher("C03")
def c03_matchers(v, text="", features=None, ode=None, ref=None, code=None, **kw):
    d = v.get("detail", {})
    exc = d.get("exc", "") or ""
    kind = v.get("kind")
    names = [d["name"]] if d.get("name") in (ref.assigns if ref else {}) else (list(ref.derivs.values()) if ref else [])
    if kind == "raises" and "An overflow was encountered while parsing an argument to a jitted computation" in exc and "<class 'int'>" in exc:
        # only an integer literal of the generated code (or integer arithmetic between such literals) can be a Python int here
        return "C03-huge-int-literal"
    if kind == "raises" and "OverflowError" in exc and "Python int" in exc and "too large to convert to int64" in exc:
        # the message itself shows that a Python int >= 2**63 reached jax; only integer literals of the generated code (or
        # Python's exact arithmetic between them, e.g. 100**16) can produce one - the inputs are float64 arrays
        return "C03-huge-int-literal"
    if kind == "raises" and any(t in exc for t in HUGE_INT_TEXTS) and (has_huge_int_literal(text) or has_huge_int_literal(code or "") or int_arithmetic_exceeds_int64(code) or (ode is not None and huge_integer_atom(ode, ref, list(ref.assigns)))):
        return "C03-huge-int-literal"
    if kind == "raises" and ("name 'inf'" in exc or "name 'nan'" in exc) and code and re.search(r"(?<![\w.])(inf|nan)(?![\w.(])", code):
        # a bare inf/nan token in generated code can only come from printing a folded Float beyond float64's range
        return "C03-folded-constant-out-of-float-range"
    if kind in ("value", "raises") and ode is not None and ref is not None:
        if (kind == "value" or "name 'inf'" in exc or "name 'nan'" in exc) and folded_constant_out_of_range(ode, ref, names):
            return "C03-folded-constant-out-of-float-range"
    if kind == "raises" and "Integers cannot be raised to negative powers" in exc and has_int_branch_conditional(text):
        return "C03-integer-branches-make-int-where"
    if kind == "value" and ode is not None and ref is not None and v.get("_point") and d.get("name") in ref.assigns and "Conditional" in text:
        # counterfactual: the jax module regenerated with sympy.simplify (called from _print_Piecewise) replaced by the
        # identity - in this harness process only - gives the expected value
        import sympy

        from ..exec.pyexec import PyModule
        from . import common as C

        orig = sympy.simplify
        try:
            sympy.simplify = lambda e, *a, **k: e
            oc = C.py_code(ode, backend="jax", schemes=[d["fn"]] if d["fn"] not in ("rhs", "monitor_values") else None, **({"stiff_states": sorted(ref.states)} if d["fn"] == "hybrid_rush_larsen" else {}))
        finally:
            sympy.simplify = orig
        if oc.ok and oc.value != code:
            mod = PyModule(oc.value, "jax")
            rec = mod.call(d["fn"], v["_point"], dt=d.get("dt"))
            if rec.exc is None:
                kindmap = "monitor" if d["fn"] == "monitor_values" else "state"
                key = d["name"] if kindmap == "monitor" else [s for s, dn in ref.derivs.items() if dn == d["name"]][0]
                got = float(rec.out[mod.names(kindmap)[key]])
                if abs(got - d["expected"]) <= max(d["tol"], 1e-9 * abs(d["expected"])):
                    return "C03-simplify-in-conditional-rewrites-the-branch-expression"
    if kind == "value" and ref is not None and code and d.get("name") in ref.assigns and int_branch_in_closure(ref, d["name"]) and v.get("_point"):
        # counterfactual: the same generated code with where() forced to float64 gives the expected value
        from ..exec.pyexec import PyModule

        mod = PyModule(code, "jax")
        mod.ns["numpy"] = NumpyFloatWhere(mod.ns["numpy"])
        rec = mod.call(d["fn"], v["_point"], dt=d.get("dt"))
        if rec.exc is None:
            kindmap = "monitor" if d["fn"] == "monitor_values" else "state"
            key = d["name"] if kindmap == "monitor" else [s for s, dn in ref.derivs.items() if dn == d["name"]][0]
            got = float(rec.out[mod.names(kindmap)[key]])
            if abs(got - d["expected"]) <= max(d["tol"], 1e-9 * abs(d["expected"])):
                return "C03-integer-branches-make-int-where"
    return None


def own_state_under_floor_mod(ref):
    import ast

    for s, dn in ref.derivs.items():
        for n in ast.walk(ref._parsed[dn]):
            if isinstance(n, ast.Call) and getattr(n.func, "id", "") in ("floor", "Mod"):
                if any(isinstance(k, ast.Name) and k.id == s for a in n.args for k in ast.walk(a)):
                    return True
    return False


@matcher("C06")
def c06_matchers(v, text="", ode=None, ref=None, code=None, **kw):
    d = v.get("detail", {})
    exc = d.get("exc", "") or ""
    if v.get("kind") == "generation_raises" and ("_print_Derivative" in exc or "_print_Subs" in exc or "Derivative" in exc or "Subs" in exc) and ref is not None and own_state_under_floor_mod(ref):
        return "C06-derivative-of-floor-mod-unprintable"
    if v.get("kind") == "raises" and any(t in exc for t in HUGE_INT_TEXTS) and (has_huge_int_literal(text) or int_arithmetic_exceeds_int64(code)):
        # the linearisation of c**x is c**x*log(c): the literal reaches a numpy / jax function only in the scheme
        return "C06-huge-int-literal-in-numpy-call"
    if v.get("kind") == "value" and ref is not None and v.get("_point") and "ContinuousConditional" in text and d.get("branch_expected") == "rl":
        # the emitted linearisation of a saturated sigmoid is inf/inf = nan, |nan| > delta is false, the step is the Euler step
        from ..refmodel import evalref as E
        from ..refmodel import schemes as S

        got, eu = d.get("got"), d.get("euler")
        if got is not None and eu is not None and abs(got - eu) <= 1e-12 * max(1.0, abs(eu)):
            before = E.COUNTERS.get("saturated_sigmoid", 0)
            try:
                S.own_g(ref, v["_point"], d["state"])
            except Exception:
                pass
            if E.COUNTERS.get("saturated_sigmoid", 0) > before:
                return "C06-linearisation-of-saturated-sigmoid-is-nan"
    if v.get("kind") == "value" and ref is not None and code and v.get("_point") and d.get("branch_expected") == "rl" and kw.get("backend") == "numpy":
        # the emitted derivative has a 0/0 (or inf/inf) at this input although g exists, e.g. d/dx acos(Conditional(Gt(x, 0.75), b, x))
        # = -0/sqrt(1 - b**2) at b = 1: g is nan, `abs(nan) > delta` is false, the step silently is the Euler step.
        # Observed directly: the same call with invalid floating-point operations trapped raises.
        import numpy as np

        from ..exec.pyexec import PyModule

        got, eu = d.get("got"), d.get("euler")
        if got is not None and eu is not None and abs(got - eu) <= 1e-12 * max(1.0, abs(eu)):
            try:
                mod = PyModule(code)
                s_, p_, m_ = mod.arrays(v["_point"])
                fn = next((f for f in ("generalized_rush_larsen", "forward_generalized_rush_larsen") if mod.has(f)), None)
                with np.errstate(invalid="raise"):
                    mod.ns[fn](s_, np.float64(v["_point"]["t"]), np.float64(d["dt"]), p_)
            except FloatingPointError:
                return "C06-linearisation-is-nan-at-a-removable-zero-over-zero"
            except Exception:
                pass
    return None


@matcher("C02")
def c02_matchers(v, text="", ode=None, ref=None, code=None, **kw):
    d = v.get("detail", {})
    if v.get("kind") == "value" and ref is not None:
        root = d.get("name")
        if d.get("fn") in ("rhs", "explicit_euler", "generalized_rush_larsen") and root in ref.derivs:
            root = ref.derivs[root]
        if root in ref.assigns and inverse_trig_of_constant(ref, root):
            return "C02-inverse-trig-of-constant-rewritten-with-cancellation"
    return None


@matcher("C17")
def c17_matchers(v, text="", base_text="", **kw):
    d = v.get("detail", {})
    kind, place, cls = v.get("kind"), d.get("placement"), d.get("class")
    exc = d.get("exc") or d.get("err") or ""
    if cls == "bare_hash" and (kind in ("edit_makes_load_fail", "membership_changed", "layout_changed", "code_changed")):
        return "C17-bare-hash-swallows-the-next-line"
    if place == "after_expressions_header" and kind == "edit_makes_load_fail" and "UnexpectedToken" in exc:
        return "C17-comment-after-expressions-header-is-a-syntax-error"
    if place == "inside_named_block":
        if kind == "edit_makes_load_fail" and "StateNotFoundInComponent" in exc and "component ''" in exc:
            return "C17-comment-line-inside-named-block-ends-the-block"
        if kind in ("membership_changed", "code_changed", "layout_changed"):
            moved = d.get("moved") or {}
            # every definition that moved went to the unnamed component (a repeated definition can stay in both)
            if kind != "membership_changed" or all("" in list(b) and "" not in list(a or []) for a, b in moved.values()):
                return "C17-comment-line-inside-named-block-ends-the-block"
    if place in ("spaces_only_line_inside_block", "tab_only_line_inside_block"):
        if (kind == "edit_makes_load_fail" and "StateNotFoundInComponent" in exc and "component ''" in exc) or kind in ("membership_changed", "code_changed", "layout_changed"):
            return "C17-whitespace-only-line-inside-block-ends-the-block"
    if place == "break_after_operand_in_parentheses" and kind == "edit_makes_load_fail" and "UnexpectedToken" in exc and "NEWLINE" in exc:
        return "C17-line-break-after-operand-in-parentheses-is-a-syntax-error"
    if kind == "exceeds_progress_bound" and place == "trailing_assignment" and "**" in (d.get("comment") or ""):
        return "C17-power-tower-in-trailing-comment-is-evaluated-by-pint"
    return None


def divides_by_constant_zero(ref):
    """Some expression of the model divides by a constant sub-expression whose value is exactly 0 (u/0, a/(2 - 2))."""
    import ast

    if ref is None:
        return False
    ev = ref.evaluator(ref.default_point())
    for n, node in ref._parsed.items():
        for k in ast.walk(node):
            if isinstance(k, ast.BinOp) and isinstance(k.op, (ast.Div, ast.Mod)):
                fn_ids = {id(c.func) for c in ast.walk(k.right) if isinstance(c, ast.Call)}
                if any(isinstance(q, ast.Name) and id(q) not in fn_ids and q.id != "pi" for q in ast.walk(k.right)):
                    continue
                try:
                    if ev.expr(k.right, ref._src[n]).v == 0:
                        return True
                except Exception:
                    continue
    return False


@matcher("C11")
def c11_matchers(v, text="", ode=None, ref=None, saved=None, **kw):
    d0 = v.get("detail", {})
    if v.get("kind") == "saved_file_rejected" and re.search(r"(?<![\w.])zoo(?![\w.(])", d0.get("saved_line") or ""):
        # zoo only arises from a division by something sympy evaluated to exactly zero (also in one branch of a Conditional)
        return "C11-division-by-a-constant-zero-is-saved-as-zoo"
    if v.get("kind") == "saved_file_rejected" and re.search(r"(?<![\w.])(zoo|oo|nan)(?![\w.(])", d0.get("saved_line") or "") and divides_by_constant_zero(ref):
        return "C11-division-by-a-constant-zero-is-saved-as-zoo"
    """Counterfactual for the writer: the same model saved with sympy.simplify replaced by the identity
    (harness process only) reloads to a model whose value agrees with the reference."""
    d = v.get("detail", {})
    if v.get("kind") != "numerics_differ_after_reload" or ode is None or not v.get("_point"):
        return None
    import os
    import tempfile

    import sympy

    from ..exec.pyexec import PyModule
    from . import common as C

    orig = sympy.simplify
    from gotranx.codegen.ode import BaseGotranODECodePrinter as _P

    had_not = "_print_Not" in _P.__dict__
    try:
        sympy.simplify = lambda e, *a, **k: e
        if not had_not:
            # without simplify a compound Not reaches the writer, which has no method for it (prints '~')
            _P._print_Not = lambda self, e: f"Not({self._print(e.args[0])})"
        from gotranx.load import load_ode

        path = os.path.join(tempfile.mkdtemp(prefix="c11cf-", dir=os.environ.get("VERIF_WORK")), "model.ode")
        ode.save(path)
        ode2 = load_ode(path)
        oc = C.py_code(ode2, schemes=["explicit_euler", "generalized_rush_larsen"])
    except Exception:
        return None
    finally:
        sympy.simplify = orig
        if not had_not and "_print_Not" in _P.__dict__:
            del _P._print_Not
    if not oc.ok:
        return None
    m = PyModule(oc.value)
    rec = m.call(d["fn"], v["_point"], dt=None if d["fn"] == "monitor_values" else 0.05)
    if rec.exc is not None:
        return None
    if d["fn"] == "monitor_values":
        got = float(rec.out[m.names("monitor")[d["name"]]])
    else:
        st = [s for s, dn in ref.derivs.items() if dn == d["name"]][0]
        got = float(rec.out[m.names("state")[st]])
    if abs(got - d["expected"]) <= max(d["tol"], 1e-9 * abs(d["expected"])):
        return "C11-simplify-in-writer-rewrites-condition"
    return None


@matcher("C16")
def c16_matchers(v, text="", n_sing=0, ode=None, target=None, **kw):
    d = v.get("detail", {})
    if v.get("kind") == "contract" and v.get("subkind") == "K7" and isinstance(d.get("detail"), dict):
        # the in-flight contract on atoms.remove_singularities sees the same mechanism one stage earlier
        dd = d["detail"]
        kk = dd.get("n_finite_singularities", 0)
        if kk >= 2 and dd.get("where") == "regular point" and dd.get("ratio") is not None and abs(dd["ratio"] - round(dd["ratio"])) < 1e-9 and 2 <= round(dd["ratio"]) <= kk:
            return "C16-sum-of-conditionals"
        if kk >= 2 and dd.get("where") == "singular value":
            return "C16-sum-of-conditionals"
        return None
    if kw.get("twice"):
        # counterfactual on the violating point itself: the model returned by the FIRST application is right there, only the
        # second application (on a model that already carries the Conditional(Eq(state, value), limit, ...) guard) spoils it
        if v.get("kind") == "remove_singularities_raises" and d.get("application") == "second" and "NotImplementedError" in d.get("exc", "") and "as_set" in d.get("exc", ""):
            return "C16-second-application-raises-on-guarded-conditional"
        once = kw.get("once")
        want = d.get("limit") if v.get("kind") == "not_the_limit_at_removable_point" else d.get("original") if v.get("kind") == "changed_at_regular_point" else None
        if once is not None and want is not None and target and isinstance(d.get("point"), dict):
            try:
                rec = once.call("monitor_values", dict(d["point"], t=0.0, pg=2.0))
                g1 = float(rec.out[once.names("monitor")[target]]) if rec.exc is None else float("nan")
            except Exception:
                g1 = float("nan")
            if g1 == g1 and abs(g1 - want) <= 1e-9 * (1 + abs(want)):
                return "C16-second-application-takes-limit-through-its-own-guard"
    k = d.get("n_removable", n_sing) or 0
    if v.get("kind") == "not_the_limit_at_removable_point" and ode is not None and target and exp_constant_folded(ode, target, d.get("expr", "")):
        # the folded form (c*exp(x) - 1)/(x + a) is not exactly 0/0 at the singular value: the singularity is either not
        # removed (nan) or replaced by the limit of the folded form (0 instead of 1)
        return "C16-exp-of-float-offset-is-folded-at-load"
    if k < 2:
        return None
    if v.get("kind") == "changed_at_regular_point":
        r = d.get("ratio")
        # predictive: the k' conditionals are summed, so a regular point returns k' x the expression (2 <= k' <= k)
        if r is not None and abs(r - round(r)) < 1e-9 and 2 <= round(r) <= k:
            return "C16-sum-of-conditionals"
    if v.get("kind") == "not_the_limit_at_removable_point":
        # with k >= 2 summed conditionals, at one singular value the other k'-1 summands still evaluate the original
        # expression there (non-finite, or whatever its floating point evaluation yields): the sum is wrong at every point
        return "C16-sum-of-conditionals"
    return None


def exp_constant_folded(ode, name, text_expr):
    """The symbolic stage holds Float*exp(...) with a Float that is not a literal of the text:
    sympy split exp(x + c) into exp(c)*exp(x) at load time."""
    import re

    import sympy

    lits = set()
    for m in re.finditer(r"(?<![\w.])(\d+\.?\d*(?:[eE][-+]?\d+)?|\.\d+)", text_expr):
        try:
            lits.add(float(m.group(1)))
        except ValueError:
            pass
    try:
        ex = ode[name].expr
    except Exception:
        return False
    for mul in ex.atoms(sympy.Mul):
        fl = [a for a in mul.args if isinstance(a, sympy.Float)]
        if fl and any(isinstance(a, sympy.exp) for a in mul.args):
            for f in fl:
                if not any(abs(float(f) - c) <= 1e-12 * abs(c) for c in lits if c) and not any(abs(abs(float(f)) - c) <= 1e-12 * abs(c) for c in lits if c):
                    return True
    return False


def count_calls(text, names):
    return sum(len(re.findall(rf"(?<![\w.]){n}\s*\(", text)) for n in names)


@matcher("C15")
def c15_matchers(v, text="", **kw):
    """sympy folds floor()/ceiling() of a bounded non-constant argument to a constant while the expression is
    built, and the constant depends on what was evaluated earlier in the process (0 or -1 for
    floor(0.25/(abs(E) + 0.75)), reproduced in isolation: /verif/tools/sympy_floor_history.py)."""
    d = v.get("detail", {})
    if v.get("kind") == "rhs_differs_from_myokit" and text and d.get("code"):
        n_model = count_calls(text, ["floor", "ceil"]) + text.count("//")
        n_code = count_calls(d["code"], ["numpy.floor", "numpy.ceil", "floor", "ceil"])
        body = d["code"][d["code"].find("def rhs") :]
        body = body[: body.find("def monitor_values")] if "def monitor_values" in body else body
        n_code = len(re.findall(r"numpy\.(floor|ceil)\(", body))
        if n_model > 0 and n_code < n_model:
            return "C15-sympy-folds-floor-to-a-history-dependent-constant"
    if v.get("kind") == "saved_imported_model_rejected" and "'oo'" in (d.get("exc") or "") and "oo" in (d.get("saved_line") or ""):
        return "C15-simplify-in-writer-emits-infinite-bound"
    return None


@matcher("C20")
def c20_matchers(v, text="", ref=None, rhs_row=None, ode=None, evalf=None, **kw):
    """sympy differentiates b**e as b**e * (e' log b + e b'/b): where the base of a power is exactly zero at the input
    the Jacobian entry evaluates to nan although the partial derivative exists."""
    import math

    import sympy

    d = v.get("detail", {})
    if v.get("kind") in ("rhs_matrix_raises", "jacobi_matrix_raises") and "Invalid comparison of non-real zoo" in (d.get("exc") or "") and re.search(r"(?<![\w.])0(\.0*)?\s*[*/]", text):
        # a condition that holds an unevaluated product / quotient with the literal factor 0: sympy's canonicalisation of
        # the relation divides by that coefficient when the intermediates are substituted
        return "C20-literal-zero-factor-in-a-condition-makes-sympy-raise"
    if v.get("kind") in ("rhs_matrix_raises", "jacobi_matrix_raises") and "Invalid NaN comparison" in (d.get("exc") or ""):
        # a condition whose operands are all constants once the intermediates are substituted, one of them an unevaluated
        # product such as -5 = (-1)*5: sympy's canonicalisation of the relation (relational._canonical_coeff) produces nan
        return "C20-constant-condition-with-an-unevaluated-number-makes-sympy-raise"
    if v.get("kind") == "jacobian_entry" and isinstance(d.get("got"), float) and math.isnan(d["got"]) and rhs_row is not None and evalf is not None and d.get("point"):
        for pw in rhs_row.atoms(sympy.Pow):
            try:
                b = evalf(pw.base, ode, d["point"])
            except Exception:
                continue
            if b.is_number and b == 0:
                return "C20-derivative-of-a-power-with-zero-base-is-nan"
    return None
