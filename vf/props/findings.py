"""Known-finding matchers: classify a violation by *mechanism* (never by case hash or values).

classify() sets v["finding"] to the id of a mechanism if - and only if - the mechanism's own
predicate (and, where it predicts a value, its predictive re-evaluation) reproduces the
observation.  Whether that id actually suppresses anything is decided by known_findings.json
(status "open" for the property); an id not listed there is reported as a violation.
"""
from __future__ import annotations

MATCHERS = {}


def matcher(prop):
    def deco(fn):
        MATCHERS.setdefault(prop, []).append(fn)
        return fn

    return deco


def classify(prop, v, **ctx):
    v.setdefault("finding", None)
    for fn in MATCHERS.get(prop, []):
        try:
            fid = fn(v, **ctx)
        except Exception:
            fid = None
        if fid:
            v["finding"] = fid
            return fid
    return None
