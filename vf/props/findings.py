"""Known-finding matchers: classify a violation by *mechanism* (never by case hash or values).

classify() sets v["finding"] to the id of a mechanism if - and only if - the mechanism's own
predicate (and, where it predicts a value, its predictive re-evaluation) reproduces the
observation.  Whether that id actually suppresses anything is decided by known_findings.json
(status "open" for the property); an id not listed there is reported as a violation.
"""
from __future__ import annotations

MATCHERS = {}


def matcher(prop):
    def deco(fn):
        MATCHERS.setdefault(prop, []).append(fn)
        return fn

    return deco


def classify(prop, v, **ctx):
    v.setdefault("finding", None)
    for fn in MATCHERS.get(prop, []):
        try:
            fid = fn(v, **ctx)
        except Exception:
            fid = None
        if fid:
            v["finding"] = fid
            return fid
    return None


# ------------------------------------------------------------------ shared predicates

def closure_names(ref, name):
    seen, todo = set(), [name]
    while todo:
        n = todo.pop()
        if n in seen or n not in ref.assigns:
            continue
        seen.add(n)
        todo.extend(ref.deps[n])
    return seen


def folded_constant_out_of_range(ode, ref, names):
    """A Float atom outside float64's normal range in the symbolic stage of `names`
    (sympy folded e.g. exp(x + c) -> exp(c)*exp(x) with exp(c) beyond 1e308)."""
    import sympy

    for top in names:
        for n in closure_names(ref, top):
            try:
                ex = ode[n].expr
            except Exception:
                continue
            for f in ex.atoms(sympy.Float):
                a = abs(f)
                if a > sympy.Float("1e300") or (a != 0 and a < sympy.Float("1e-300")):
                    return True
    return False


class NumpyFloatWhere:
    """numpy proxy whose where() returns float64: the counterfactual 'integer literal
    branches printed as floats'."""

    def __init__(self):
        import numpy

        self._np = numpy

    def __getattr__(self, k):
        return getattr(self._np, k)

    def where(self, c, a, b):
        return self._np.where(c, a, b).astype(self._np.float64)


def int_where_counterfactual(code, fn, ref, pts, judge_fn):
    """Re-run the generated code with where() forced to float64.  True iff the function then
    neither raises nor disagrees with the reference at any decidable point."""
    from ..exec.pyexec import PyModule

    mod = PyModule(code)
    mod.ns["numpy"] = NumpyFloatWhere()
    return judge_fn(mod)


def has_int_branch_conditional(text):
    import ast
    import re

    from ..refmodel.model import RefModel

    try:
        ref = RefModel.from_text(text)
    except Exception:
        return False
    for node in ref._parsed.values():
        for n in ast.walk(node):
            if isinstance(n, ast.Call) and getattr(n.func, "id", "") == "Conditional" and len(n.args) == 3:
                ok = True
                for br in n.args[1:]:
                    b = br
                    while isinstance(b, ast.UnaryOp):
                        b = b.operand
                    if not (isinstance(b, ast.Constant) and isinstance(b.value, int)) and not (
                        isinstance(b, ast.Call) and getattr(b.func, "id", "") == "Conditional"
                    ):
                        ok = False
                if ok:
                    return True
    return False


def has_huge_int_literal(text):
    import re

    for m in re.finditer(r"(?<![\w.])(\d{19,})(?![\w.])", text):
        if int(m.group(1)) >= 2**63:
            return True
    return False


@matcher("C01")
def c01_matchers(v, text="", features=None, ode=None, ref=None, code=None, recheck=None, **kw):
    d = v.get("detail", {})
    exc = d.get("exc", "") or ""
    kind = v.get("kind")
    names = [d["name"]] if d.get("name") else (list(ref.derivs.values()) if ref else [])
    if kind in ("value", "rhs_raises") and ode is not None and ref is not None:
        if (kind == "value" or "name 'inf'" in exc or "name 'nan'" in exc) and folded_constant_out_of_range(ode, ref, names):
            return "C01-folded-constant-out-of-float-range"
    if kind == "rhs_raises" and ("loop of ufunc does not support argument 0 of type int" in exc or "Python int too large to convert to C long" in exc) and has_huge_int_literal(text):
        return "C01-huge-int-literal-in-numpy-call"
    if kind in ("value", "rhs_raises") and code and recheck and has_int_branch_conditional(text):
        if kind == "value" or "Integers to negative integer powers" in exc:
            try:
                if int_where_counterfactual(code, "rhs", ref, None, recheck):
                    return "C01-integer-branches-make-int64-where"
            except Exception:
                return None
    return None
