"""C20 - symbolic right-hand side and Jacobian matrices are those of the model."""
from __future__ import annotations

import random

import sympy

from ..gen import models, points
from ..gen.exprs import Profile
from ..refmodel import evalref as E
from ..refmodel.model import RefModel
from . import common as C
from . import findings as F

ID = "C20"
LEVEL = "exploration"
BUDGET = {"quick": 70, "thorough": 560}


def plan(tier, seed):
    specs = []
    k = 0
    for depth in (1, 2, 5, 10, 19, 20, 21, 30, 45, 60):
        specs.append({"klass": "chain", "i": k, "depth": depth})
        k += 1
    for depth in (2, 4, 6, 8):
        specs.append({"klass": "diamond", "i": k, "depth": depth})
        k += 1
    for j in range(len(DERIV_READS_DERIV)):
        specs.append({"klass": "derivative_reads_derivative", "i": k, "text": DERIV_READS_DERIV[j]})
        k += 1
    from . import c12

    for j, h in enumerate(c12.HAND):
        # definitions nothing depends on (one of them changes the order in which the derivatives are sorted)
        specs.append({"klass": "unused_definitions", "i": k, "text": h})
        k += 1
    for j in range(12 if tier == "quick" else 120):
        specs.append({"klass": "unused_definitions", "i": k, "shape": "unused", "fill": j >= 4})
        k += 1
    for j in range(len(SINGULAR)):
        specs.append({"klass": "after_remove_singularities", "i": k, "text": SINGULAR[j][0], "singular": SINGULAR[j][1]})
        k += 1
    n = 400 if tier == "quick" else 4000
    for j in range(n):
        specs.append({"klass": "random", "i": j, "fill": j >= 8})
    for s in specs:
        s["prop"] = ID
        s.setdefault("soft_timeout", 200)
    return specs


# a state derivative is an assignment like any other: other assignments may read it
DERIV_READS_DERIV = [
    "parameters(a=3.0)\nstates(x=1.0, y=2.0)\n\ndx_dt = -a * x\ndy_dt = 2 * dx_dt + y\n",
    "parameters(a=3.0)\nstates(x=1.0, y=2.0)\n\ndx_dt = -a * x * y\nw = dx_dt * 0.5 + x\ndy_dt = w + y\n",
    "parameters(a=3.0, b=0.5)\nstates(x=1.0, y=2.0, z=0.25)\n\ndx_dt = -a * x + z\ndy_dt = 2 * dx_dt + y * b\nu = dy_dt - dx_dt\ndz_dt = u * z + exp(-x)\n",
    "parameters(a=3.0)\nstates(\"A\", x=1.0)\nstates(\"B\", y=2.0)\n\nexpressions(\"B\")\ndy_dt = sin(dx_dt) + y\n\nexpressions(\"A\")\ndx_dt = -a * x + y * y\n",
]


# (text, {state: singular value}): one removable singularity per expression (several are C16's subject)
SINGULAR = [
    ("states(x=0.625, y=-0.375)\n\nw = x / (exp(x) - 1)\ndx_dt = w - x\ndy_dt = -y + w\n", {"x": 0.0}),
    ("parameters(a=2.0)\nstates(x=0.625)\n\ndx_dt = sin(x - 1.0) / (x - 1.0) * a - x\n", {"x": 1.0}),
    ("states(\"A\", x=0.625)\nstates(\"B\", y=-0.375)\n\nexpressions(\"R\")\nw = (exp(2 * y) - 1) / y\n\nexpressions(\"A\")\ndx_dt = w - x\n\nexpressions(\"B\")\ndy_dt = -y * 0.5 + x\n", {"y": 0.0}),
]


def singular_case(spec, out, cn):
    """rhs_matrix of the model returned by remove_singularities (after the original model's cached collections have
    been used) against the code generated for that same returned model, at regular points and on the singular value."""
    import numpy as np

    from gotranx import sympytools

    from ..exec.pyexec import PyModule

    text = spec["text"]
    out["hash"] = models.structural_hash(text) + ":sing"
    ode = C.load_text(text).value
    # use the original first: intermediates, state derivatives, the matrices and generated code
    _ = ode.intermediates, ode.state_derivatives, ode.parameters
    j0 = C.call(sympytools.jacobi_matrix, ode)
    c0 = C.py_code(ode)
    rs = C.call(ode.remove_singularities)
    out["evaluations"] += 1
    if not (j0.ok and c0.ok and rs.ok):
        out.update(status="skipped", reason="original model / remove_singularities fails (C16, C01)")
        return out
    new = rs.value
    rm = C.call(sympytools.rhs_matrix, new)
    sm = C.call(sympytools.states_matrix, new)
    oc = C.py_code(new)
    if not (rm.ok and sm.ok):
        out["violations"].append({"kind": "rhs_matrix_raises", "detail": {"exc": (rm if not rm.ok else sm).describe()[:200], "after": "remove_singularities"}})
        return out
    if not oc.ok:
        out.update(status="skipped", reason="code for the returned model cannot be generated (C01)")
        return out
    mod = PyModule(oc.value)
    order = [str(s) for s in sm.value]
    idx = mod.names("state")
    base = {s.name: float(s.value) for s in new.states}
    base.update({p.name: float(p.value) for p in new.parameters})
    pts = [dict(base, t=0.25), dict({k_: v * 1.5 + 0.125 for k_, v in base.items()}, t=1.0), dict(base, t=0.0, **{k_: float(v) for k_, v in spec["singular"].items()})]
    compared = 0
    for pt in pts:
        rec = mod.call("rhs", pt)
        if rec.exc is not None:
            continue
        for i, s_ in enumerate(order):
            want = float(rec.out[idx[s_]])
            try:
                got = float(evalf(rm.value[i], new, pt))
            except (TypeError, ValueError):
                got = float("nan")
            out["evaluations"] += 1
            if not np.isfinite(want):
                continue
            compared += 1
            if not (abs(got - want) <= 1e-9 * max(1.0, abs(want))):
                out["violations"].append({"kind": "rhs_matrix_differs_from_generated_code", "detail": {"after": "remove_singularities", "row": s_, "got": got, "generated_rhs": want, "point": pt}})
    cn["compared"] = compared
    out["nontrivial"] = compared >= 3
    return out


def chain_model(depth):
    lines = ["parameters(p=0.5)", "states(x=0.75, y=1.25)", "", "c0 = x * p + 0.25"]
    for i in range(1, depth):
        lines.append(f"c{i} = c{i-1} * 0.9 + {0.125 * (i % 3)}")
    lines += [f"dx_dt = c{depth - 1} - x", "dy_dt = x - y * p"]
    return "\n".join(lines) + "\n"


def diamond_model(depth):
    lines = ["parameters(p=0.5)", "states(x=0.75, y=1.25)", "", "a0 = x + p", "b0 = y - p"]
    for i in range(1, depth):
        lines.append(f"a{i} = a{i-1} * 0.5 + b{i-1} * 0.25")
        lines.append(f"b{i} = a{i-1} * 0.25 - b{i-1} * 0.5")
    lines += [f"dx_dt = a{depth - 1} + b{depth - 1}", f"dy_dt = a{depth - 1} * b{depth - 1}"]
    return "\n".join(lines) + "\n"


def evalf(expr, ode, pt):
    subs = {ode.t: sympy.Float(pt["t"], 30)}
    for n, v in pt.items():
        if n in ode.symbols and n != "t":
            subs[ode.symbols[n]] = sympy.Float(v, 30)
    v = expr.xreplace(subs).evalf(30)
    return v


def run_case(spec, ctx):
    from gotranx import sympytools

    rng = C.rng_for(spec)
    out = {"violations": [], "counters": {}, "evaluations": 0, "nontrivial": False, "status": "held"}
    cn = out["counters"]
    if spec["klass"] == "after_remove_singularities":
        singular_case(spec, out, cn)
        return finish(out, spec["text"], spec, None)
    if spec.get("text"):
        text = spec["text"]
    elif spec.get("shape"):
        prof = Profile(mod=False, ccond=False, hard_lits=False, funcs=["exp", "sin", "cos", "atan", "sqrt", "log"], max_arity=3)
        text = models.gen_model(rng, prof, depth=2, shape=spec["shape"], n_states=rng.choice([3, 4, 5]), n_inter=rng.choice([6, 10]), n_params=rng.choice([1, 2])).render(rng)
    elif spec["klass"] == "chain":
        text = chain_model(spec["depth"])
    elif spec["klass"] == "diamond":
        text = diamond_model(spec["depth"])
    else:
        prof = Profile(mod=False, ccond=False, hard_lits=False, funcs=["exp", "sin", "cos", "atan", "sqrt", "log"], max_arity=3)
        text = models.gen_model(rng, prof, depth=2, n_states=rng.choice([1, 2, 3]), n_inter=rng.choice([0, 2, 4, 6]), n_params=rng.choice([1, 2])).render(rng)
    out["hash"] = models.structural_hash(text)
    ref = RefModel.from_text(text)
    if ref.ill_formed():
        out.update(status="inconclusive", reason="generator produced an ill-formed model")
        return out
    lo = C.load_text(text)
    if not lo.ok:
        out.update(status="skipped", reason="rejected_by_loader: " + lo.describe())
        return out
    ode = lo.value
    cn["dag_depth"] = ref.depth()
    sm = C.call(sympytools.states_matrix, ode)
    rm = C.call(sympytools.rhs_matrix, ode)
    out["evaluations"] += 2
    if not sm.ok:
        out["violations"].append({"kind": "states_matrix_raises", "detail": {"exc": sm.describe()[:200]}})
    if not rm.ok:
        out["violations"].append({"kind": "rhs_matrix_raises", "detail": {"exc": rm.describe()[:200], "dag_depth": ref.depth()}})
    if out["violations"]:
        return finish(out, text, spec, ref)
    order = [str(s) for s in sm.value]
    oc = C.py_code(ode)
    if oc.ok:
        from ..exec.pyexec import PyModule

        idx = PyModule(oc.value).names("state")
        if [n for n, _ in sorted(idx.items(), key=lambda kv: kv[1])] != order:
            out["violations"].append({"kind": "state_order_differs_from_generated_code", "detail": {"states_matrix": order, "generated": idx}})
    inter_syms = {ode.symbols[n] for n in list(ref.intermediates) + list(ref.derivs.values()) if n in ode.symbols}
    for i, row in enumerate(rm.value):
        left = row.free_symbols & inter_syms
        if left:
            out["violations"].append({"kind": "intermediate_left_in_rhs_matrix", "detail": {"row": order[i], "symbols": [str(s) for s in left][:5]}})
    jm = C.call(sympytools.jacobi_matrix, ode)
    out["evaluations"] += 1
    if not jm.ok:
        out["violations"].append({"kind": "jacobi_matrix_raises", "detail": {"exc": jm.describe()[:200]}})
    if out["violations"]:
        return finish(out, text, spec, ref)
    pts, st = points.sample(ref, rng, want=3, max_draws=30)
    compared = 0
    for pt, res, dec in pts:
        for i, s in enumerate(order):
            val = res[ref.derivs[s]]
            try:
                got = float(evalf(rm.value[i], ode, pt))
            except (TypeError, ValueError):
                continue
            jv = C.judge(got, val)
            if jv not in ("ok", "skip") and abs(got - float(val.v)) <= 1e-25:
                jv = "ok"  # noise of sympy's own 30-digit evalf around an exact zero
            if jv != "skip":
                compared += 1
                if jv != "ok":
                    out["violations"].append({"kind": "rhs_matrix_value", "detail": {"row": s, "got": got, "expected": float(val.v), "point": pt if len(pt) < 10 else None}})
            if jm.ok:
                for j, s2 in enumerate(order):
                    try:
                        g = ref.total_gradient(pt, s, s2)
                    except (E.Undefined, E.Undecidable, E.Unsupported):
                        continue
                    gv = E.Val(g.d, 1000 * E.U * g.dm + E.mpf("1e-13") * g.dm, False)
                    try:
                        gotj = float(evalf(jm.value[i, j], ode, pt))
                    except (TypeError, ValueError):
                        continue
                    if not E.well_conditioned(gv) and g.d != 0:
                        continue
                    compared += 1
                    # + an absolute floor for the noise of sympy's own 30-digit evalf (e.g. pi - pi evaluates to 1e-163)
                    tol = float(E.tolerance(gv)) + 1e-10 * abs(float(g.d)) + 1e-25
                    if not abs(gotj - float(g.d)) <= tol:
                        out["violations"].append({"kind": "jacobian_entry", "detail": {"row": s, "col": s2, "got": gotj, "expected": float(g.d), "tol": tol, "point": pt if len(pt) < 10 else None},
                                                  "_cls": {"rhs_row": rm.value[i], "ode": ode, "evalf": evalf}})
    cn["compared"] = compared
    out["nontrivial"] = compared >= 3
    return finish(out, text, spec, ref)


def finish(out, text, spec, ref):
    if out["violations"]:
        out["status"] = "violated"
    for v in out["violations"]:
        F.classify(ID, v, text=text, ref=ref, **(v.pop("_cls", None) or {}))
    out["model_text"] = text if out["violations"] else None
    if spec["i"] % 9 == 0:
        out["sample"] = {"klass": spec["klass"], "model_text": text[:500], "counters": out["counters"], "status": out["status"]}
    return out


def summarise(records, tier, seed):
    ag = C.aggregate(records)
    cn = ag["counters"]
    cov = {
        "evaluations": ag["evaluations"],
        "distinct_nontrivial": len(ag["hashes"]),
        "rule": "single-use chains of depth 1..60, diamonds of depth 2..8, random models with conditionals and functions; evaluation = one call of states_matrix / rhs_matrix / jacobi_matrix; the matrices are "
        "evaluated with sympy evalf (30 digits) at sampled points and compared with the reference derivative and the reference's own total derivative (forward-mode AD through all intermediates); "
        "non-trivial = >= 3 entries compared; distinct by structural hash",
        "samples": C.pick_samples(records),
        "per_class_cases": ag["classes"],
        "status": ag["status"],
        "entries_compared": cn.get("compared", 0),
        "max_dag_depth": max([r.get("counters", {}).get("dag_depth", 0) for r in records] or [0]),
    }
    verdict = {}
    if len(ag["hashes"]) < (20 if tier == "quick" else 200):
        verdict["inconclusive"] = f"only {len(ag['hashes'])} non-trivial cases"
    return cov, C.BASE_ASSUMPTIONS, verdict
