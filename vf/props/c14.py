"""C14 - generated NumPy functions are vectorised: column j of a batch = the call on column j alone."""
from __future__ import annotations

import warnings

import numpy as np

from ..exec.pyexec import PyModule
from ..gen import classes, grlmodels, models, points
from ..gen.exprs import Profile
from ..refmodel import evalref as E
from ..refmodel import schemes as S
from ..refmodel.model import RefModel
from . import common as C
from . import findings as F

ID = "C14"
LEVEL = "exploration"
BUDGET = {"quick": 60, "thorough": 480}
SCH = ["explicit_euler", "generalized_rush_larsen", "hybrid_rush_larsen"]
NS = [1, 2, 7, 64]

VEC_EXPRS = [
    "Conditional(Gt(a, 1), b, c)", "Conditional(And(Gt(a, 1), Lt(b, 1), Ge(t, 0.25)), a, b)", "Conditional(Or(Gt(a, 1), Lt(p, 1), Ge(c, 2)), a, b)",
    "Conditional(Not(And(Gt(a, 1), Lt(b, 1))), a, b)", "Conditional(Not(Or(Gt(a, 1), Lt(k, 1))), a, b)", "Conditional(And(Gt(t, 0.25), Lt(p, 1)), a, b)",
    "Conditional(And(Gt(p, 0.25), Lt(k, 5)), a, b)", "abs(a - 1)", "floor(a * 2)", "Mod(a, 0.75)", "Mod(a, b)", "Conditional(Eq(a, 1.25), 1, a / (a - 1.25))",
    "Conditional(Gt(a, 1), 1, 2) * b", "ContinuousConditional(Gt(a, 1), b, c, 0.5)", "sqrt(abs(a)) * Conditional(Le(b, 0.5), 1.5, 2.5)", "exp(-a) * t + time",
    "Conditional(Gt(a, 1), Conditional(Lt(b, 1), 1.5, 2.5), Conditional(Lt(c, 2), 3.5, 4.5))", "p * k", "3.5", "pi", "t",
]


def plan(tier, seed):
    specs = []
    for k, chunk in enumerate(classes.chunks(VEC_EXPRS, 7)):
        specs.append({"klass": "table", "i": k, "exprs": chunk})
    for k in range(10):
        specs.append({"klass": "grl", "i": k})
    for k in range(12 if tier == "quick" else 120):
        # the batch functions generated with the documented shape option for 2-D state arrays
        specs.append({"klass": "shape_multiple", "i": 50000 + k, "shape_opt": "multiple", "kind": ("grl", "random", "table")[k % 3], "exprs": VEC_EXPRS[(k // 3 * 7) % len(VEC_EXPRS):][:7]})
    for k in range(6 if tier == "quick" else 30):
        # option history: the same model is first translated with shape=single (result discarded), then with the default dynamic
        # shape that is checked; padded with intermediates so that its number of monitored values occurs in no other case of the
        # (long-lived) worker process
        specs.append({"klass": "after_shape_single", "i": 60000 + k, "kind": "table", "exprs": VEC_EXPRS[(k * 7) % len(VEC_EXPRS):][:7], "pad": 31 + 2 * k, "first_shape": ("single", "multiple")[k % 2]})
    n = 300 if tier == "quick" else 4000
    for k in range(n):
        specs.append({"klass": "random" if k % 3 else "grl", "i": 100 + k, "fill": True})
    for s in specs:
        s["prop"] = ID
    return specs


def table_model(exprs):
    lines = ["parameters(p=0.5, k=3.0)", "states(a=1.25, b=0.75, c=2.0, " + ", ".join(f"q{i}=0.5" for i in range(len(exprs))) + ")", ""]
    for n in "abc":
        lines.append(f"d{n}_dt = -{n}")
    for i, e in enumerate(exprs):
        lines.append(f"dq{i}_dt = ({e}) - q{i} * 0.5")
    return "\n".join(lines) + "\n"


def run_case(spec, ctx):
    rng = C.rng_for(spec)
    out = {"violations": [], "counters": {}, "evaluations": 0, "nontrivial": False, "status": "held"}
    cn = out["counters"]
    if spec.get("text"):
        text = spec["text"]
    elif spec["klass"] == "table" or spec.get("kind") == "table":
        text = table_model(spec["exprs"]) + "".join(f"pad{j} = a * {j + 1} + p\n" for j in range(spec.get("pad", 0)))
    elif spec["klass"] == "grl" or spec.get("kind") == "grl":
        text = grlmodels.gen_grl_model(rng)[0]
    else:
        text = models.gen_model(rng, Profile(), depth=rng.choice([2, 3]), n_states=rng.choice([1, 2, 3, 4])).render(rng)
    out["hash"] = models.structural_hash(text)
    ref = RefModel.from_text(text)
    if ref.ill_formed():
        out.update(status="inconclusive", reason="generator produced an ill-formed model")
        return out
    lo = C.load_text(text)
    if not lo.ok:
        out.update(status="skipped", reason="rejected_by_loader: " + lo.describe())
        return out
    ode = lo.value
    stiff = sorted(ref.states)[::2]
    sch = SCH
    if spec.get("first_shape"):
        from gotranx.codegen.base import Shape

        o1 = C.py_code(ode, schemes=sch, stiff_states=stiff, shape=Shape(spec["first_shape"]))
        cn["generated_first_with_another_shape_option"] = int(o1.ok)
    oc = C.py_code(ode, schemes=sch, stiff_states=stiff)
    if not oc.ok:
        sch = ["explicit_euler"]
        oc = C.py_code(ode, schemes=sch)
        if not oc.ok:
            out.update(status="skipped", reason="module cannot be generated (C01)")
            return out
    try:
        m = PyModule(oc.value)
    except Exception as exc:
        out.update(status="skipped", reason="module does not load (C01)")
        return out
    mb = m
    if spec.get("shape_opt"):
        from gotranx.codegen.base import Shape

        ob = C.py_code(ode, schemes=sch, shape=Shape(spec["shape_opt"]), **({"stiff_states": stiff} if "hybrid_rush_larsen" in sch else {}))
        if not ob.ok:
            out["violations"].append({"kind": "generation_raises_with_shape_option", "detail": {"shape": spec["shape_opt"], "exc": ob.describe()[:300]}})
            out["status"] = "violated"
            return out
        mb = PyModule(ob.value)
        out["hash"] += ":" + spec["shape_opt"]
    pts, st = points.sample(ref, rng, want=24, max_draws=90)
    cn["points"] = st
    if len(pts) < 3:
        out.update(status="skipped", reason="too few decidable points")
        return out
    sidx, pidx, midx = m.names("state"), m.names("parameter"), m.names("monitor")
    ns, npar = len(sidx), len(pidx)
    fns = ["rhs", "monitor_values"] + sch
    compared = 0
    seen = set()
    sig_total = 0
    for N in NS:
        cols = [pts[(k * 5 + N) % len(pts)] for k in range(N)]
        sig_total += len({c[2] for c in cols})
        for mode in ("scalar_tp", "percol_tp"):
            Sm = np.zeros((ns, N))
            Pm = np.zeros((npar, N))
            T = np.zeros(N)
            for j, (pt, res, dec) in enumerate(cols):
                for n_, i in sidx.items():
                    Sm[i, j] = pt[n_]
                for n_, i in pidx.items():
                    Pm[i, j] = pt[n_] if mode == "percol_tp" else cols[0][0][n_]
                T[j] = pt["t"] if mode == "percol_tp" else cols[0][0]["t"]
            for fn in fns:
                dt = 0.05
                tt = T if mode == "percol_tp" else np.float64(T[0])
                pp = Pm if mode == "percol_tp" else Pm[:, 0].copy()
                args = [tt, Sm, pp] if fn in ("rhs", "monitor_values") else [Sm, tt, np.float64(dt), pp]
                out["evaluations"] += 1
                with warnings.catch_warnings():
                    warnings.simplefilter("ignore")
                    try:
                        with np.errstate(all="ignore"):
                            batch = np.asarray(mb.ns[fn](*args))
                        exc = None
                    except Exception as e:
                        exc = f"{type(e).__name__}: {e}"[:300]
                    # single-column calls
                    singles = []
                    for j in range(N):
                        tj = np.float64(T[j])
                        pj = Pm[:, j].copy()
                        a1 = [tj, Sm[:, j].copy(), pj] if fn in ("rhs", "monitor_values") else [Sm[:, j].copy(), tj, np.float64(dt), pj]
                        try:
                            with np.errstate(all="ignore"):
                                singles.append(np.asarray(m.ns[fn](*a1)))
                        except Exception as e:
                            singles.append(e)
                if exc is not None:
                    if any(isinstance(s_, Exception) for s_ in singles):
                        continue  # the function fails on single columns too: not a vectorisation event
                    if (fn, "exc", exc[:40]) not in seen:
                        seen.add((fn, "exc", exc[:40]))
                        out["violations"].append({"kind": "batch_raises", "subkind": fn, "detail": {"fn": fn, "N": N, "mode": mode, "exc": exc}})
                    continue
                n_out = len(midx) if fn == "monitor_values" else ns
                if batch.shape != (n_out, N):
                    if (fn, "shape") not in seen:
                        seen.add((fn, "shape"))
                        out["violations"].append({"kind": "batch_shape", "subkind": fn, "detail": {"fn": fn, "N": N, "mode": mode, "shape": list(batch.shape), "expected": [n_out, N]}})
                    continue
                names = midx if fn == "monitor_values" else sidx
                for j, (pt, res, dec) in enumerate(cols):
                    if isinstance(singles[j], Exception) or singles[j].shape != (n_out,):
                        continue
                    ptj = dict(pt)
                    if mode == "scalar_tp":
                        for n_ in pidx:
                            ptj[n_] = cols[0][0][n_]
                        ptj["t"] = cols[0][0]["t"]
                        resj, _ = ref.evaluate(ptj)
                    else:
                        resj = res
                    for n_, i in names.items():
                        a, b = float(batch[i, j]), float(singles[j][i])
                        if a == b or (a != a and b != b):
                            compared += 1
                            continue
                        # judge with the reference's tolerance at decidable columns
                        try:
                            if fn == "rhs":
                                val = resj[ref.derivs[n_]]
                            elif fn == "monitor_values":
                                val = resj[n_]
                            else:
                                kind = "euler" if fn == "explicit_euler" or (fn == "hybrid_rush_larsen" and n_ not in stiff) else "grl"
                                val, _ = S.expected_update(ref, ptj, resj, n_, dt, kind, 1e-8)
                            if isinstance(val, Exception) or not E.well_conditioned(val):
                                continue
                        except (E.Undefined, E.Undecidable, E.Unsupported):
                            continue
                        compared += 1
                        tol = 2 * float(E.tolerance(val))
                        if not abs(a - b) <= tol and (fn, n_) not in seen:
                            seen.add((fn, n_))
                            out["violations"].append({"kind": "column_differs", "subkind": fn, "detail": {"fn": fn, "name": n_, "N": N, "column": j, "mode": mode, "batch": a, "single": b, "tol": tol, "reference": float(val.v)}})
    cn["compared"] = compared
    cn["distinct_branch_signatures_in_batches"] = sig_total
    out["nontrivial"] = compared >= 20 and sig_total > len(NS)
    if out["violations"]:
        out["status"] = "violated"
    for v in out["violations"]:
        F.classify(ID, v, text=text, ode=ode, ref=ref, code=oc.value)
    out["model_text"] = text if out["violations"] else None
    if spec["i"] % 9 == 0:
        out["sample"] = {"klass": spec["klass"], "model_text": text[:700], "compared": compared, "signatures": sig_total, "status": out["status"]}
    return out


def summarise(records, tier, seed):
    ag = C.aggregate(records)
    cn = ag["counters"]
    cov = {
        "evaluations": ag["evaluations"],
        "distinct_nontrivial": len(ag["hashes"]),
        "rule": "conditional/boolean/abs/floor/Mod table, rate-shape (Rush-Larsen linearisation) models, random models, shape=multiple modules, and modules generated after the same model was translated with another shape option; batches of N in {1,2,7,64} columns chosen by the reference on different sides of the "
        "conditions, with scalar and with per-column t/parameters; evaluation = one batched call; non-trivial = >= 20 (name, column) entries compared with the single-column call and the batches "
        "contained more than one branch signature; distinct by structural hash",
        "samples": C.pick_samples(records),
        "per_class_cases": ag["classes"],
        "status": ag["status"],
        "entries_compared": cn.get("compared", 0),
        "branch_signatures_in_batches": cn.get("distinct_branch_signatures_in_batches", 0),
        "functions": ["rhs", "monitor_values"] + SCH,
    }
    verdict = {}
    if len(ag["hashes"]) < (25 if tier == "quick" else 250):
        verdict["inconclusive"] = f"only {len(ag['hashes'])} distinct non-trivial cases"
    return cov, C.BASE_ASSUMPTIONS + ["a differing column is judged with twice the reference tolerance (numpy's array loops are not bit-identical to its scalar path)", "missing_values is exercised in C13"], verdict
