"""C06 - generalized Rush-Larsen follows x + (f/g)(exp(g dt) - 1), guarded by |g| > delta."""
from __future__ import annotations

import re

from ..exec import backends as B
from ..gen import grlmodels, models, points
from ..gen.exprs import Profile
from ..refmodel import evalref as E
from ..refmodel import schemes as S
from ..refmodel.model import RefModel
from . import common as C
from . import findings as F

ID = "C06"
LEVEL = "exploration"
BUDGET = {"quick": 70, "thorough": 540}
DELTAS = [1e-8, 1e-3, 0.5]
DTS = [1e-3, 0.05, 0.5, 0.0, 1e-6, 2.0]
TAUS = [1e-3, 1.0, 2.0, 1e3, 1e6, 1e9, 1e12]


def plan(tier, seed):
    specs = []
    i = 0
    for sh in grlmodels.SHAPES + ["floormod"]:
        for be in ("numpy", "c", "jax"):
            for delta in (DELTAS if sh in ("linear_k", "affine", "neg_inv_tau") else DELTAS[:1]):
                specs.append({"klass": "shape:" + sh, "i": i, "shapes": [sh, sh], "backend": be, "delta": delta})
                i += 1
    n = 260 if tier == "quick" else 4000
    for k in range(n):
        specs.append({"klass": "random", "i": k, "backend": ("numpy", "c", "numpy", "jax")[k % 4], "delta": DELTAS[(k // 4) % 3], "fill": True, "general": k % 3 == 0,
                      "alias": "forward_generalized_rush_larsen" if k % 5 == 4 else "generalized_rush_larsen", "zero_defaults": k % 7 == 3})
    for j, sh in enumerate(["linear_k", "affine", "gate", "denominator"]):
        for be in ("numpy", "c", "jax"):
            specs.append({"klass": "zero_default_parameter:" + sh, "i": 1000 + 3 * j + ("numpy", "c", "jax").index(be), "shapes": [sh, sh], "backend": be, "delta": 1e-8, "zero_defaults": True})
            specs.append({"klass": "deprecated_alias:" + sh, "i": 1100 + 3 * j + ("numpy", "c", "jax").index(be), "shapes": [sh, sh], "backend": be, "delta": 0.5, "alias": "forward_generalized_rush_larsen"})
    for j, e in enumerate(IDENTICAL_RATES):
        for be in ("numpy", "c", "jax"):
            # several states share one rate expression: each is linearised in its own state
            text = "parameters(k=-0.5, tau=2.0, b=0.75)\nstates(x0=0.75, x1=1.25, x2=-0.5)\n\nw = 0.5 + x0 * x0 / 4\n" + "".join(f"dx{q}_dt = {e}\n" for q in range(3))
            specs.append({"klass": "identical_rates", "i": 1200 + 3 * j + ("numpy", "c", "jax").index(be), "text": text, "backend": be, "delta": 1e-8})
    for j, sh in enumerate(["linear_k", "affine"]):
        for be in ("numpy", "c", "jax"):
            for q, d0 in enumerate((0, 0.0)):
                # delta = 0 is an option like any other ("the delta option is honoured"): only g == 0 takes the Euler branch.  The
                # coefficient is placed far below the default 1e-8 and the step is long enough for exp(g dt) to differ from 1 + g dt
                specs.append({"klass": "delta_zero:" + sh, "i": 1300 + 6 * j + 2 * ("numpy", "c", "jax").index(be) + q, "shapes": [sh, sh], "backend": be, "delta": d0, "tiny_k": True})
    for s in specs:
        s["prop"] = ID
        s.setdefault("soft_timeout", 150)
    return specs


TINY_K = [5e-9, -5e-9, 1e-9, -2e-10, 0.0]
LONG_DTS = [2e8, 1e8, 1e9, 0.5]
IDENTICAL_RATES = ["k * x0 * x1 + 0.25", "-(x0 * x0) * x1 / tau + x2", "(x1 - x0) / tau - x2 * 0.125", "w * (1 - x0) - 0.3 * x1 * x2", "exp(-x0) * x1 - x0 * x2", "k * x0 + k * x1 * 2 + k * x2 * 3"]


def k_values(delta):
    return [0.0, delta / 2, -delta / 2, delta * (1 - 1e-3), -delta * (1 - 1e-3), delta * (1 + 1e-3), -delta * (1 + 1e-3), 1.0, -1.0, -0.5]


def guard_census(code, fn="generalized_rush_larsen"):
    """How many state updates were emitted with the |g| > delta guard / without it / as Euler."""
    k = code.find(f" {fn}(")
    if k < 0:
        return {}
    body = code[k:]
    nxt = re.search(r"\n(def |void |@jax)", body[10:])
    if nxt:
        body = body[: nxt.start() + 10]
    lin = len(re.findall(r"_linearized\s*=", body))
    guarded = len(re.findall(r"(numpy\.abs|numpy\.logical_or|fabs)\(\w*_linearized|_linearized [<>]", body))
    guarded = min(lin, len(re.findall(r"values\[\d+\] = .*(where|\?)", body)) + len(re.findall(r"_values_\d+ = .*where", body)))
    return {"linearized": lin, "guarded": guarded, "unguarded": lin - guarded}


def run_case(spec, ctx):
    rng = C.rng_for(spec)
    out = {"violations": [], "counters": {}, "evaluations": 0, "nontrivial": False, "status": "held"}
    cn = out["counters"]
    be, delta = spec["backend"], spec["delta"]
    if spec.get("text"):
        text, shapes = spec["text"], []
    elif spec.get("general"):
        text, shapes = models.gen_model(rng, Profile(mod=False, funcs=[f for f in Profile().funcs if f != "floor"]), depth=2, n_states=rng.choice([1, 2, 3])).render(rng), ["general"]
    else:
        text, shapes = grlmodels.gen_grl_model(rng, shapes=spec.get("shapes"), n_states=2 if spec.get("shapes") else None)
    if spec.get("zero_defaults"):
        # the model ships with parameters that are zero by default (and switch the linearisation off);
        # the generated step is then called with other runtime values
        text = text.replace("parameters(k=-0.5, tau=2.0, b=0.75)", "parameters(k=0.0, tau=2.0, b=0.0)")
    out["hash"] = models.structural_hash(text) + f":{be}:{delta}:{spec.get('alias', '')}:{bool(spec.get('zero_defaults'))}"
    out["shapes"] = shapes
    ref = RefModel.from_text(text)
    if ref.ill_formed():
        out.update(status="inconclusive", reason=f"generator produced an ill-formed model {ref.ill_formed()}")
        return out
    lo = C.load_text(text)
    if not lo.ok:
        out.update(status="skipped", reason="rejected_by_loader: " + lo.describe())
        return out
    ode = lo.value
    fn = spec.get("alias", "generalized_rush_larsen")
    oc = B.generate(be, ode, schemes=[fn], delta=delta)
    if not oc.ok:
        if not B.generate(be, ode, schemes=None).ok:
            out.update(status="skipped", reason="module cannot be generated even without the scheme (C01-C03)")
            return out
        v = {"kind": "generation_raises", "detail": {"exc": oc.describe(), "site": C.trace_site(oc.exc, 4), "backend": be, "shapes": shapes}}
        out["violations"].append(v)
        return finish(out, text, spec, ref, ode)
    code = oc.value
    out["code"] = code
    cn["census"] = guard_census(code, fn)
    try:
        m = B.open_module(be, code, ref)
    except Exception as exc:
        out["violations"].append({"kind": "exec_fails", "detail": {"exc": f"{type(exc).__name__}: {exc}"[:300], "backend": be}})
        return finish(out, text, spec, ref, ode)
    try:
        if be == "c":
            if m.compile_errors:
                base = B.generate(be, ode, schemes=None)
                m0 = B.open_module(be, base.value, ref)
                bad0 = bool(m0.compile_errors)
                m0.close()
                if bad0:
                    out.update(status="skipped", reason="C module does not compile even without the scheme (C02)")
                    return out
                out["violations"].append({"kind": "compile_error", "detail": {"errors": m.compile_errors[0][1][:3], "backend": be}})
                return finish(out, text, spec, ref, ode)
            if not m.build():
                out.update(status="inconclusive", reason="driver build failed " + m.build_err[-200:])
                return out
        base_pts, st = points.sample(ref, rng, want=5 if spec.get("tier") == "quick" else 10, max_draws=40)
        cn["points"] = st
        pts = []
        for pt, res, dec in base_pts:
            pts.append((pt, res))
            if "k" in ref.params and "tau" in ref.params:
                for kv in (TINY_K[:4] if spec.get("tiny_k") else rng.sample(k_values(delta), 3)):
                    p2 = dict(pt, k=kv, tau=rng.choice(TAUS))
                    r2, _ = ref.evaluate(p2)
                    pts.append((p2, r2))
        if len(pts) < 2:
            out.update(status="skipped", reason="too few decidable points")
            return out
        sidx = m.maps(ref)["state"]
        calls, meta = [], []
        for j, (pt, res) in enumerate(pts):
            calls.append(("rhs", pt, None, None))
            meta.append(("rhs", j, None))
            dts = LONG_DTS if spec.get("tiny_k") else DTS
            for dt in (dts[j % len(dts)], dts[(j + 2) % len(dts)]):
                calls.append((fn, pt, dt, None))
                meta.append((fn, j, dt))
        rs = m.run(calls)
        rhs_ok = {}
        branches = {"rl": 0, "euler_guard": 0, "euler_zero": 0}
        compared = 0
        seen = set()
        for (f_, j, dt), r in zip(meta, rs):
            out["evaluations"] += 1
            pt, res = pts[j]
            if f_ == "rhs":
                rhs_ok[j] = None if r.exc else r.out
                continue
            if r.exc is not None:
                if rhs_ok.get(j) is None or any(isinstance(res[dn], (E.Undefined, E.Unsupported)) for dn in ref.derivs.values()):
                    continue
                if ("raises", r.exc[:50]) not in seen:
                    seen.add(("raises", r.exc[:50]))
                    out["violations"].append({"kind": "raises", "detail": {"exc": r.exc, "san": r.san, "dt": dt, "backend": be, "point": pt}})
                continue
            if len(r.out) != len(ref.states):
                out["violations"].append({"kind": "shape", "detail": {"len": len(r.out), "backend": be}})
                continue
            if r.mutated and ("mut",) not in seen:
                seen.add(("mut",))
                out["violations"].append({"kind": "inputs_modified", "detail": {"backend": be}})
            for s, i in sidx.items():
                dn = ref.derivs[s]
                # attribute to the scheme only where the module's own rhs is right
                if rhs_ok.get(j) is None or C.judge(rhs_ok[j][i], res[dn]) != "ok":
                    continue
                try:
                    val, br = S.expected_update(ref, pt, res, s, dt, "grl", delta)
                except (E.Undefined, E.Undecidable, E.Unsupported):
                    cn["undecidable_updates"] = cn.get("undecidable_updates", 0) + 1
                    continue
                jv = C.judge(r.out[i], val)
                if jv == "skip":
                    continue
                compared += 1
                branches[br] = branches.get(br, 0) + 1
                if jv == "ok":
                    continue
                if (s, br) in seen:
                    continue
                seen.add((s, br))
                g = S.own_g(ref, pt, s)
                out["violations"].append({"kind": "value", "subkind": br, "detail": {
                    "state": s, "expr": ref.assigns[dn].rhs[:200], "branch_expected": br, "g": float(g.v), "delta": delta, "dt": dt, "x": pt[s], "f": float(res[dn].v),
                    "got": r.out[i], "expected": float(val.v), "tol": float(E.tolerance(val)), "euler": pt[s] + dt * float(res[dn].v), "backend": be,
                    "point": {q: pt[q] for q in sorted(pt) if len(pt) < 12 or q in ref.deps[dn]}}, "_point": dict(pt)})
        cn["compared"] = compared
        cn["branches"] = branches
        cn.setdefault("by_backend", {})[be] = compared
        out["nontrivial"] = compared >= 2 and branches.get("rl", 0) >= 1
    finally:
        m.close()
    return finish(out, text, spec, ref, ode)


def finish(out, text, spec, ref, ode):
    if out["violations"]:
        out["status"] = "violated"
    for v in out["violations"]:
        F.classify(ID, v, text=text, code=out.get("code"), ode=ode, ref=ref, backend=spec.get("backend"))
        v.pop("_point", None)
    out["model_text"] = text if out["violations"] else None
    if spec["i"] % 9 == 0 and out["status"] in ("held", "violated"):
        out["sample"] = {"klass": spec["klass"], "backend": spec["backend"], "delta": spec["delta"], "model_text": text[:700], "counters": {k: v for k, v in out["counters"].items() if k != "points"}, "status": out["status"]}
    out.pop("code", None)
    return out


def summarise(records, tier, seed):
    ag = C.aggregate(records)
    cn = ag["counters"]
    cov = {
        "evaluations": ag["evaluations"],
        "distinct_nontrivial": len(ag["hashes"]),
        "rule": "rate-shape catalogue (linear with parameter coefficient placed around delta, -1/tau with tau 1e-3..1e12, gates with frozen intermediates, functions/conditionals/powers of the own "
        "state, absent, floor/Mod) + random models, x backend {numpy, jax, C} x delta {1e-8, 1e-3, 0.5} (+ delta = 0 with |g| <= 5e-9 and steps of 1e8..1e9); evaluation = one generated call; non-trivial = >= 2 updates compared with the formula "
        "(g from the reference's own forward-mode AD) of which >= 1 on the RL branch; distinct by (structural hash, backend, delta)",
        "samples": C.pick_samples(records),
        "per_class_cases": ag["classes"],
        "status": ag["status"],
        "updates_compared": cn.get("compared", 0),
        "branches_observed": cn.get("branches", {}),
        "updates_skipped_near_guard_or_undefined": cn.get("undecidable_updates", 0),
        "emitted_updates_census": cn.get("census", {}),
        "by_backend": cn.get("by_backend", {}),
    }
    verdict = {}
    if len(ag["hashes"]) < (25 if tier == "quick" else 250):
        verdict["inconclusive"] = f"only {len(ag['hashes'])} distinct non-trivial cases"
    br = cn.get("branches", {})
    if not br.get("rl") or not br.get("euler_guard"):
        verdict["inconclusive"] = f"guard never observed on both sides: {br}"
    return cov, C.BASE_ASSUMPTIONS + ["g is computed by the reference's own differentiator (shares nothing with sympy.diff); its rounding is bounded by 1e3*u*(cancellation-free magnitude)"], verdict
