"""C19 - model identifiers never collide with names the generated code uses itself."""
from __future__ import annotations

import keyword

import numpy as np

from ..exec import backends as B
from ..refmodel import evalref as E
from ..refmodel import schemes as S
from ..refmodel.model import RefModel
from . import common as C
from . import findings as F

ID = "C19"
LEVEL = "exploration"
BUDGET = {"quick": 75, "thorough": 560}
FRESH = "zq_fresh_name"
SCH = ["explicit_euler", "generalized_rush_larsen", "hybrid_rush_larsen"]

POOLS = {
    "template_locals": ["states", "parameters", "values", "shape", "dt", "t", "time", "missing_variables", "numpy", "name", "key", "value"],
    "module_names": ["state", "parameter", "monitor", "missing", "state_index", "parameter_index", "monitor_index", "rhs", "monitor_values", "init_state_values", "init_parameter_values",
                     "explicit_euler", "generalized_rush_larsen", "hybrid_rush_larsen", "missing_values"],
    "scheme_helpers": ["s0_linearized", "ds0_dt_linearized", "dss_dt_linearized", "linearized", "dt_linearized", "ds0_dt_linearised", "ds0_dt_nonlinear"],
    "python_keywords_builtins": ["lambda", "def", "None", "True", "False", "len", "int", "float", "in", "is", "if", "for", "print", "max", "min", "sum", "range", "list", "dict", "import", "as", "pass", "global", "del", "class", "return", "yield", "with", "not", "and", "or"],
    "c_keywords_libm": ["double", "register", "const", "auto", "pow", "fabs", "M_PI", "void", "static", "char", "long", "short", "unsigned", "struct", "floor", "fmod", "strcmp", "NUM_STATES", "NULL", "main", "y0", "y1", "j0", "gamma", "signgam", "true", "false", "bool", "inline", "restrict", "I", "complex"],
    "sympy_names": ["E", "I", "S", "N", "Q", "beta", "gamma", "zeta", "oo", "zoo", "nan", "Symbol", "Abs", "re", "im", "sign", "Piecewise", "O"],
    "jax_names": ["jax", "jit"],
    "underscore": ["_values_0", "_values_1", "_", "__name__", "_states", "__builtins__"],
    "grammar_words": ["pi", "exp", "log", "Conditional", "ScalarParam", "expressions", "component", "unit", "description", "And", "Lt", "Mod", "floor", "ln"],
    "plain": ["V_m", "Ca_i", "x1", "alpha"],
}
ROLES = ["state", "parameter", "intermediate"]
SUBMODEL_IDENTS = ["dt", "shape", "values", "states", "parameters", "numpy", "len", "missing_variables", "_values_0", "V_m"]


def plan(tier, seed):
    specs = []
    k = 0
    for pool, names in POOLS.items():
        for n in names:
            for role in ROLES:
                be = ["numpy"]
                if tier == "thorough" or pool in ("template_locals", "c_keywords_libm", "jax_names", "underscore", "scheme_helpers"):
                    be += ["jax", "c"]
                for b in be:
                    specs.append({"klass": pool, "i": k, "ident": n, "role": role, "backend": b})
                    k += 1
    # generator configurations other than the default: fixed output shape, unused variables removed, many outputs
    for n in ["shape", "len", "states", "values", "dt", "numpy", "V_m"]:
        for role in ROLES:
            specs.append({"klass": "shape_single", "i": k, "ident": n, "role": role, "backend": "numpy", "opts": {"shape": "single"}})
            k += 1
    for n in POOLS["template_locals"] + POOLS["scheme_helpers"] + ["_values_0", "_values_1", "len", "V_m"]:
        for b in ("numpy", "jax", "c"):
            for ru in (True, False):
                specs.append({"klass": "unused_state", "i": k, "ident": n, "role": "state", "variant": "unused", "backend": b, "opts": {"remove_unused": ru}})
                k += 1
    for n in ["_values_10", "_values_11", "_values_13", "_values_100", "_values_9", "values_10"]:
        for role in ROLES:
            for b in ("jax", "numpy"):
                specs.append({"klass": "wide_model", "i": k, "ident": n, "role": role, "variant": "wide", "backend": b})
                k += 1
    for n in ["lambda", "def", "class", "None", "for", "if", "in", "is", "double", "int", "register", "const", "auto", "while", "V_m"]:
        for role in ROLES:
            for b in ("numpy", "jax", "c"):
                specs.append({"klass": "keyword_and_keyword_with_suffix", "i": k, "ident": n, "role": role, "variant": "suffix_pair", "backend": b})
                k += 1
    for n in ["_values_5", "_values_9", "_values_12", "_values_2", "values_5"]:
        for role in ROLES:
            for b in ("jax", "numpy"):
                # few states, many monitored values: collector indices beyond the number of states
                specs.append({"klass": "many_monitors", "i": k, "ident": n, "role": role, "variant": "wide_monitor", "backend": b})
                k += 1
    for n in SUBMODEL_IDENTS:
        for b in ("numpy", "jax", "c"):
            specs.append({"klass": "missing_variable_of_sub_model", "i": k, "ident": n, "role": "missing_variable", "backend": b})
            k += 1
    for s in specs:
        s["prop"] = ID
        s.setdefault("soft_timeout", 150)
    return specs


def split_text(n):
    """Two components; the identifier is a state of component B that component A reads: in the sub-model `ode - B`
    it is a missing variable."""
    return (f"parameters(\"A\", p0=0.5)\nstates(\"A\", s0=0.75)\nstates(\"B\", {n}=1.25)\n\nexpressions(\"A\")\nii = s0 * p0 + t + {n} * 0.25\nds0_dt = -s0 * 1.5 + ii + time * 0.125\n\n"
            f"expressions(\"B\")\nd{n}_dt = {n} * -0.5 + s0\n")


def run_split_case(spec, out):
    """Sub-model `ode - B` generated as documented; its functions, fed the full model's value for the missing variable,
    must equal the twin's (identifier renamed) or generation must fail."""
    from ..exec.pyexec import PyModule

    n, be = spec["ident"], spec["backend"]
    cn = out["counters"]
    text, twin = split_text(n), split_text(FRESH)
    out["hash"] = f"{n}:missing:{be}"
    tref = RefModel.from_text(twin)
    lo = C.load_text(text)
    if not lo.ok:
        cn["outcome"] = {"rejected_at_load": 1}
        out["nontrivial"] = True
        out["outcome"] = "rejected_at_load: " + type(lo.exc).__name__
        return finish(out, text, spec)
    ode = lo.value
    sub = C.call(lambda: ode - ode.get_component("B"))
    if not sub.ok:
        cn["outcome"] = {"rejected_at_split": 1}
        out["nontrivial"] = True
        return finish(out, text, spec)
    oc = B.generate(be, sub.value, schemes=["explicit_euler", "generalized_rush_larsen"])
    if not oc.ok:
        cn["outcome"] = {"rejected_at_generation": 1}
        out["nontrivial"] = True
        out["outcome"] = "rejected_at_generation: " + type(oc.exc).__name__
        return finish(out, text, spec)
    if be == "c":
        from ..exec.cexec import CModule

        cm = CModule(oc.value, [], {"states": 1, "parameters": 1, "monitored": 2})
        try:
            diag = cm.compile_check()
        finally:
            cm.close()
        bad = [d["errors"][:1] for d in diag.values() if d["rc"] != 0]
        cn["outcome"] = {"c_compile_error_recorded_under_C02": 1} if bad else {"c_compiles_values_not_executed": 1}
        out["nontrivial"] = True
        out["outcome"] = "c: " + ("compile error " + str(bad[0])[:100] if bad else "compiles")
        if not bad and n in ("dt",):
            # a C sub-model that compiles although the missing variable re-declares the step-size argument cannot exist
            pass
        return finish(out, text, spec)
    try:
        m = PyModule(oc.value, be)
    except Exception as exc:
        out["violations"].append({"kind": "generated_module_fails_at_import", "subkind": "missing_variable", "detail": {"ident": n, "role": "missing_variable", "backend": be, "exc": f"{type(exc).__name__}: {exc}"[:150]}})
        return finish(out, text, spec)
    compared = 0
    for tp in (tref.default_point(t=0.375), dict(tref.default_point(t=2.0), s0=-0.5, **{FRESH: 2.25})):
        res, _ = tref.evaluate(tp)
        mp_ = {(n if k_ == FRESH else k_): v for k_, v in tp.items()}
        for fn in ("rhs", "explicit_euler", "generalized_rush_larsen"):
            dt = None if fn == "rhs" else 0.05
            rec = m.call(fn, mp_, dt=dt, missing=mp_)
            out["evaluations"] += 1
            if rec.exc is not None:
                out["violations"].append({"kind": "raises_at_call_time", "subkind": f"missing_variable|{fn}", "detail": {"ident": n, "role": "missing_variable", "fn": fn, "backend": be, "exc": f"{type(rec.exc).__name__}: {rec.exc}"[:200]}})
                continue
            try:
                val = res["ds0_dt"] if fn == "rhs" else S.expected_update(tref, tp, res, "s0", dt, "euler" if fn == "explicit_euler" else "grl", 1e-8)[0]
            except (E.Undefined, E.Undecidable):
                continue
            got = float(rec.out[m.names("state")["s0"]])
            jv = C.judge(got, val)
            if jv == "skip":
                continue
            compared += 1
            if jv != "ok":
                out["violations"].append({"kind": "value_differs_from_renamed_twin", "subkind": f"missing_variable|{fn}", "detail": {"ident": n, "role": "missing_variable", "fn": fn, "name": "s0", "got": got, "expected": float(val.v), "backend": be}})
    cn["compared"] = compared
    cn["outcome"] = {"treated_as_model_quantity": 1} if not out["violations"] else {"captured": 1}
    out["outcome"] = "equal_to_twin" if not out["violations"] else "violated"
    out["nontrivial"] = compared >= 3
    return finish(out, text, spec)


def model_text(n, role, variant=None, partner=None):
    P = n if role == "parameter" else "pp"
    Sx = n if role == "state" else "ss"
    I = n if role == "intermediate" else "ii"
    if variant == "suffix_pair":
        # a second quantity whose name is the identifier with the printers' reserved-word suffix
        return (f"parameters(p0=0.5, {P}=1.5, {partner}=2.5)\nstates(s0=0.75, {Sx}=1.25)\n\n{I} = s0 * p0 + t + {Sx} * 0.25\nds0_dt = -s0 * {P} + {I} + time * 0.125 + {partner} * 0.0625\n"
                f"d{Sx}_dt = {Sx} * -0.5 + s0 - {P} * 0.0625 + {I} * 0.03125 - {partner} * 0.125\n")
    if variant == "unused":
        # nothing depends on the state, not even its own derivative
        return (f"parameters(p0=0.5, pp=1.5)\nstates(s0=0.75, {Sx}=1.25)\n\nii = s0 * p0 + t\nds0_dt = -s0 * pp + ii + time * 0.125\nd{Sx}_dt = s0 * 0.5 - pp * 0.0625\n")
    if variant == "wide_monitor":
        ms = [f"m{j}" for j in range(12)]
        return (f"parameters(p0=0.5, {P}=1.5)\nstates(s0=0.75, {Sx}=1.25)\n\n" + "".join(f"{m} = s0 * {0.125 * (j + 1)} + {Sx} * 0.25 + {P} * {0.0625 * j}\n" for j, m in enumerate(ms))
                + f"{I} = s0 * p0 + t + {Sx} * 0.25 + m3\nzlast = {I} * 2 + {P} + {Sx} + m11\nds0_dt = -s0 * {P} + {I} + time * 0.125 + zlast\nd{Sx}_dt = {Sx} * -0.5 + s0 - {P} * 0.0625 + {I} * 0.03125 + m7\n")
    if variant == "wide":
        # enough states / monitored values for two-digit collector indices
        ws = [f"w{j}" for j in range(12)]
        return (f"parameters(p0=0.5, {P}=1.5)\nstates(s0=0.75, {Sx}=1.25, " + ", ".join(f"{w}={0.25 + 0.125 * j}" for j, w in enumerate(ws)) + f")\n\n{I} = s0 * p0 + t + {Sx} * 0.25\n"
                f"ds0_dt = -s0 * {P} + {I} + time * 0.125\nd{Sx}_dt = {Sx} * -0.5 + s0 - {P} * 0.0625\n" + "".join(f"d{w}_dt = -{w} * 0.5 + {Sx} * {0.0625 * (j + 1)} + {I} * {P}\n" for j, w in enumerate(ws)))
    # the intermediate feeds both derivatives: whatever is emitted between them (scheme helper variables) can capture it
    # ... and a nested conditional mentions the identifier in every role (boolean constants / ternaries of the C printer)
    return (f"parameters(p0=0.5, {P}=1.5)\nstates(s0=0.75, {Sx}=1.25)\n\n{I} = s0 * p0 + t + {Sx} * 0.25\nds0_dt = -s0 * {P} + {I} + time * 0.125 + Conditional(Gt({P}, 1.0), {Sx} * 0.03125, {I} * 0.0625)\n"
            f"d{Sx}_dt = {Sx} * -0.5 + s0 - {P} * 0.0625 + {I} * 0.03125\n")


class RenamedNames:
    """The twin's reference under the case's identifier: only names and counts (what the C adapter needs); the
    identifier itself may not be a Python expression (lambda, def, ...), so the text cannot be scanned directly."""

    def __init__(self, tref, n):
        ren = lambda q: q.replace(FRESH, n)
        self.states = {ren(k): v for k, v in tref.states.items()}
        self.params = {ren(k): v for k, v in tref.params.items()}
        self.assigns = {ren(k): v for k, v in tref.assigns.items()}
        self._counts = tref.counts()

    def counts(self):
        return self._counts


def run_case(spec, ctx):
    out = {"violations": [], "counters": {}, "evaluations": 0, "nontrivial": False, "status": "held"}
    cn = out["counters"]
    if spec.get("role") == "missing_variable":
        return run_split_case(spec, out)
    n, role, be = spec["ident"], spec["role"], spec["backend"]
    variant, opts = spec.get("variant"), dict(spec.get("opts") or {})
    partner = n + "_" if variant == "suffix_pair" else None
    text = spec.get("text") or model_text(n, role, variant, partner)
    twin = model_text(FRESH, role, variant, partner)
    out["hash"] = f"{n}:{role}:{be}" + (f":{variant}" if variant else "") + "".join(f":{k_}={v}" for k_, v in sorted(opts.items()))
    if "shape" in opts:
        from gotranx.codegen.base import Shape

        opts["shape"] = Shape(opts["shape"])
    tref = RefModel.from_text(twin)
    lo = C.load_text(text)
    if not lo.ok:
        cn["outcome"] = {"rejected_at_load": 1}
        out["nontrivial"] = True
        out["outcome"] = "rejected_at_load: " + type(lo.exc).__name__
        return finish(out, text, spec)
    ode = lo.value
    stiff = [st.name for st in ode.states]
    oc = B.generate(be, ode, schemes=SCH, stiff_states=stiff, **opts)
    if not oc.ok:
        cn["outcome"] = {"rejected_at_generation": 1}
        out["nontrivial"] = True
        out["outcome"] = "rejected_at_generation: " + type(oc.exc).__name__
        return finish(out, text, spec)
    try:
        m = B.open_module(be, oc.value, tref)
    except SyntaxError as exc:
        # generated text that is not valid Python: loud at import time, but AFTER generation succeeded
        out["violations"].append({"kind": "generated_module_is_not_valid_python", "subkind": role, "detail": {"ident": n, "role": role, "backend": be, "exc": f"{type(exc).__name__}: {exc}"[:150]}})
        return finish(out, text, spec)
    except Exception as exc:
        out["violations"].append({"kind": "generated_module_fails_at_import", "subkind": role, "detail": {"ident": n, "role": role, "backend": be, "exc": f"{type(exc).__name__}: {exc}"[:150]}})
        return finish(out, text, spec)
    try:
        if be == "c":
            if m.compile_errors:
                cn["outcome"] = {"c_compile_error_recorded_under_C02": 1}
                out["nontrivial"] = True
                out["outcome"] = "c_compile_error: " + str(m.compile_errors[0][1][:1])[:120]
                return finish(out, text, spec)
            if not m.build(which=("asan",)):
                out.update(status="inconclusive", reason="driver build failed: " + m.build_err[-150:])
                return out
        ren = lambda q: FRESH if q == n else q
        inv = lambda q: n if q == FRESH else q
        pts = []
        base = tref.default_point(t=0.375)
        for d_ in ({}, {"s0": -0.5, "t": 2.0}, {FRESH if role != "intermediate" else "s0": 2.25, "t": 0.125}):
            p = dict(base)
            p.update({k_: v for k_, v in d_.items() if k_ in p})
            pts.append(p)
        if be == "c":
            # the C adapter looks names up through the module's own index functions
            m.ref = RenamedNames(tref, n)
        calls, meta = [], []
        for j, tp in enumerate(pts):
            mp_ = {inv(k_): v for k_, v in tp.items()}
            for fn in ["rhs", "monitor_values"] + SCH:
                calls.append((fn, mp_, None if fn in ("rhs", "monitor_values") else 0.05, None))
                meta.append((fn, j))
        try:
            maps = m.maps(RenamedNames(tref, n) if be == "c" else None)
            rs = m.run(calls)
        except Exception as exc:
            out["violations"].append({"kind": "call_machinery_fails", "subkind": role, "detail": {"ident": n, "role": role, "backend": be, "exc": f"{type(exc).__name__}: {exc}"[:200]}})
            return finish(out, text, spec)
        want_states = {inv(s) for s in tref.states}
        if set(maps["state"]) != want_states:
            out["violations"].append({"kind": "state_map_wrong", "subkind": role, "detail": {"ident": n, "role": role, "backend": be, "map": maps["state"]}})
            return finish(out, text, spec)
        compared = 0
        seen = set()
        for (fn, j), r in zip(meta, rs):
            out["evaluations"] += 1
            tp = pts[j]
            res, _ = tref.evaluate(tp)
            if r.exc is not None:
                if (fn, "exc") not in seen:
                    seen.add((fn, "exc"))
                    out["violations"].append({"kind": "raises_at_call_time", "subkind": f"{role}|{fn}", "detail": {"ident": n, "role": role, "fn": fn, "backend": be, "exc": r.exc[:200]}})
                continue
            if fn == "monitor_values":
                exp = {a: res[a] for a in tref.assigns}
                idx = {ren(k_): v for k_, v in maps["monitor"].items()}
            else:
                exp = {}
                for s in tref.derivs:
                    try:
                        exp[s] = res[tref.derivs[s]] if fn == "rhs" else S.expected_update(tref, tp, res, s, 0.05, "euler" if fn == "explicit_euler" else "grl", 1e-8)[0]
                    except (E.Undefined, E.Undecidable):
                        pass
                idx = {ren(k_): v for k_, v in maps["state"].items()}
            for a, val in exp.items():
                key = a if a in idx else (f"d{n}_dt" if a == f"d{FRESH}_dt" and f"d{n}_dt" in maps["monitor"] else None)
                slot = idx.get(a, maps["monitor"].get(key) if key else None)
                if slot is None or slot >= len(r.out):
                    if (fn, "slot") not in seen:
                        seen.add((fn, "slot"))
                        out["violations"].append({"kind": "name_missing_from_map", "subkind": f"{role}|{fn}", "detail": {"ident": n, "role": role, "fn": fn, "name": inv(a), "backend": be}})
                    continue
                jv = C.judge(r.out[slot], val)
                if jv == "skip":
                    continue
                compared += 1
                if jv != "ok" and (fn, a) not in seen:
                    seen.add((fn, a))
                    out["violations"].append({"kind": "value_differs_from_renamed_twin", "subkind": f"{role}|{fn}", "detail": {"ident": n, "role": role, "fn": fn, "name": inv(a), "got": r.out[slot], "expected": float(val.v), "backend": be}})
        cn["compared"] = compared
        cn["outcome"] = {"treated_as_model_quantity": 1} if not out["violations"] else {"captured": 1}
        out["outcome"] = "equal_to_twin" if not out["violations"] else "violated"
        out["nontrivial"] = compared >= 4
    finally:
        m.close()
    return finish(out, text, spec)


def finish(out, text, spec):
    if out["violations"]:
        out["status"] = "violated"
    for v in out["violations"]:
        F.classify(ID, v, text=text, ident=spec["ident"], role=spec["role"], backend=spec["backend"], pool=spec["klass"])
    out["model_text"] = text if out["violations"] else None
    if spec["i"] % 23 == 0:
        out["sample"] = {"identifier": spec["ident"], "role": spec["role"], "backend": spec["backend"], "model_text": text, "outcome": out.get("outcome")}
    return out


def summarise(records, tier, seed):
    ag = C.aggregate(records)
    cn = ag["counters"]
    cov = {
        "evaluations": ag["evaluations"] + len(records),
        "distinct_nontrivial": len(ag["hashes"]),
        "rule": "identifier pools (template locals, module-level names, scheme helper names, Python keywords/builtins, C keywords/libm names, sympy/jax names, underscore names, grammar words, plain controls) "
        "x role {state, parameter, intermediate} x backend, plus generator configurations (fixed output shape, remove_unused with a state nothing depends on, a wide model with > 10 outputs, sub-models with missing variables); the template model uses t and time and a scheme-relevant rate; each case is compared by name with the same model with the identifier renamed to a "
        "fresh name (reference of the twin); acceptable outcomes: equal values or an exception from load / generation (C: a compile error); evaluation = one generated call (or one rejected load/generation); "
        "non-trivial = rejected loudly or >= 4 values compared; distinct by (identifier, role, backend)",
        "exhaustive": True,
        "samples": C.pick_samples(records, 6),
        "per_class_cases": ag["classes"],
        "status": ag["status"],
        "outcomes": cn.get("outcome", {}),
        "values_compared": cn.get("compared", 0),
    }
    verdict = {}
    if len(ag["hashes"]) < 100:
        verdict["inconclusive"] = f"only {len(ag['hashes'])} non-trivial cases"
    return cov, ["complete over the listed identifier pools only", "a C compile error is recorded (C02), not counted as a C19 violation: it is not silent"], verdict
