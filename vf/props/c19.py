"""C19 - model identifiers never collide with names the generated code uses itself."""
from __future__ import annotations

import keyword

import numpy as np

from ..exec import backends as B
from ..refmodel import evalref as E
from ..refmodel import schemes as S
from ..refmodel.model import RefModel
from . import common as C
from . import findings as F

ID = "C19"
LEVEL = "exploration"
BUDGET = {"quick": 75, "thorough": 560}
FRESH = "zq_fresh_name"
SCH = ["explicit_euler", "generalized_rush_larsen", "hybrid_rush_larsen"]

POOLS = {
    "template_locals": ["states", "parameters", "values", "shape", "dt", "t", "time", "missing_variables", "numpy", "name", "key", "value"],
    "module_names": ["state", "parameter", "monitor", "missing", "state_index", "parameter_index", "monitor_index", "rhs", "monitor_values", "init_state_values", "init_parameter_values",
                     "explicit_euler", "generalized_rush_larsen", "hybrid_rush_larsen", "missing_values"],
    "scheme_helpers": ["s0_linearized", "ds0_dt_linearized", "linearized", "dt_linearized"],
    "python_keywords_builtins": ["lambda", "def", "None", "True", "False", "len", "int", "float", "in", "is", "if", "for", "print", "max", "min", "sum", "range", "list", "dict", "import", "as", "pass", "global", "del", "class", "return", "yield", "with", "not", "and", "or"],
    "c_keywords_libm": ["double", "register", "const", "auto", "pow", "fabs", "M_PI", "void", "static", "char", "long", "short", "unsigned", "struct", "floor", "fmod", "strcmp", "NUM_STATES", "NULL", "main", "y0", "y1", "j0", "gamma", "signgam"],
    "sympy_names": ["E", "I", "S", "N", "Q", "beta", "gamma", "zeta", "oo", "zoo", "nan", "Symbol", "Abs", "re", "im", "sign", "Piecewise", "O"],
    "jax_names": ["jax", "jit"],
    "underscore": ["_values_0", "_values_1", "_", "__name__", "_states", "__builtins__"],
    "grammar_words": ["pi", "exp", "log", "Conditional", "ScalarParam", "expressions", "component", "unit", "description", "And", "Lt", "Mod", "floor", "ln"],
    "plain": ["V_m", "Ca_i", "x1", "alpha"],
}
ROLES = ["state", "parameter", "intermediate"]


def plan(tier, seed):
    specs = []
    k = 0
    for pool, names in POOLS.items():
        for n in names:
            for role in ROLES:
                be = ["numpy"]
                if tier == "thorough" or pool in ("template_locals", "c_keywords_libm", "jax_names", "underscore", "scheme_helpers"):
                    be += ["jax", "c"]
                for b in be:
                    specs.append({"klass": pool, "i": k, "ident": n, "role": role, "backend": b})
                    k += 1
    for s in specs:
        s["prop"] = ID
        s.setdefault("soft_timeout", 150)
    return specs


def model_text(n, role):
    P = n if role == "parameter" else "pp"
    Sx = n if role == "state" else "ss"
    I = n if role == "intermediate" else "ii"
    return (f"parameters(p0=0.5, {P}=1.5)\nstates(s0=0.75, {Sx}=1.25)\n\n{I} = s0 * p0 + t + {Sx} * 0.25\nds0_dt = -s0 * {P} + {I} + time * 0.125\nd{Sx}_dt = {Sx} * -0.5 + s0 - {P} * 0.0625\n")


def run_case(spec, ctx):
    out = {"violations": [], "counters": {}, "evaluations": 0, "nontrivial": False, "status": "held"}
    cn = out["counters"]
    n, role, be = spec["ident"], spec["role"], spec["backend"]
    text = spec.get("text") or model_text(n, role)
    twin = model_text(FRESH, role)
    out["hash"] = f"{n}:{role}:{be}"
    tref = RefModel.from_text(twin)
    lo = C.load_text(text)
    if not lo.ok:
        cn["outcome"] = {"rejected_at_load": 1}
        out["nontrivial"] = True
        out["outcome"] = "rejected_at_load: " + type(lo.exc).__name__
        return finish(out, text, spec)
    ode = lo.value
    stiff = ["s0", n if role == "state" else "ss"]
    oc = B.generate(be, ode, schemes=SCH, stiff_states=stiff)
    if not oc.ok:
        cn["outcome"] = {"rejected_at_generation": 1}
        out["nontrivial"] = True
        out["outcome"] = "rejected_at_generation: " + type(oc.exc).__name__
        return finish(out, text, spec)
    try:
        m = B.open_module(be, oc.value, tref)
    except SyntaxError as exc:
        # generated text that is not valid Python: loud at import time, but AFTER generation succeeded
        out["violations"].append({"kind": "generated_module_is_not_valid_python", "subkind": role, "detail": {"ident": n, "role": role, "backend": be, "exc": f"{type(exc).__name__}: {exc}"[:150]}})
        return finish(out, text, spec)
    except Exception as exc:
        out["violations"].append({"kind": "generated_module_fails_at_import", "subkind": role, "detail": {"ident": n, "role": role, "backend": be, "exc": f"{type(exc).__name__}: {exc}"[:150]}})
        return finish(out, text, spec)
    try:
        if be == "c":
            if m.compile_errors:
                cn["outcome"] = {"c_compile_error_recorded_under_C02": 1}
                out["nontrivial"] = True
                out["outcome"] = "c_compile_error: " + str(m.compile_errors[0][1][:1])[:120]
                return finish(out, text, spec)
            if not m.build(which=("asan",)):
                out.update(status="inconclusive", reason="driver build failed: " + m.build_err[-150:])
                return out
        ren = lambda q: FRESH if q == n else q
        inv = lambda q: n if q == FRESH else q
        pts = []
        base = tref.default_point(t=0.375)
        for d_ in ({}, {"s0": -0.5, "t": 2.0}, {FRESH if role != "intermediate" else "s0": 2.25, "t": 0.125}):
            p = dict(base)
            p.update({k_: v for k_, v in d_.items() if k_ in p})
            pts.append(p)
        if be == "c":
            # the C adapter looks names up through the module's own index functions
            m.ref = RefModel.from_text(text) if True else None
        calls, meta = [], []
        for j, tp in enumerate(pts):
            mp_ = {inv(k_): v for k_, v in tp.items()}
            for fn in ["rhs", "monitor_values"] + SCH:
                calls.append((fn, mp_, None if fn in ("rhs", "monitor_values") else 0.05, None))
                meta.append((fn, j))
        try:
            maps = m.maps(RefModel.from_text(text) if be == "c" else None)
            rs = m.run(calls)
        except Exception as exc:
            out["violations"].append({"kind": "call_machinery_fails", "subkind": role, "detail": {"ident": n, "role": role, "backend": be, "exc": f"{type(exc).__name__}: {exc}"[:200]}})
            return finish(out, text, spec)
        want_states = {inv(s) for s in tref.states}
        if set(maps["state"]) != want_states:
            out["violations"].append({"kind": "state_map_wrong", "subkind": role, "detail": {"ident": n, "role": role, "backend": be, "map": maps["state"]}})
            return finish(out, text, spec)
        compared = 0
        seen = set()
        for (fn, j), r in zip(meta, rs):
            out["evaluations"] += 1
            tp = pts[j]
            res, _ = tref.evaluate(tp)
            if r.exc is not None:
                if (fn, "exc") not in seen:
                    seen.add((fn, "exc"))
                    out["violations"].append({"kind": "raises_at_call_time", "subkind": f"{role}|{fn}", "detail": {"ident": n, "role": role, "fn": fn, "backend": be, "exc": r.exc[:200]}})
                continue
            if fn == "monitor_values":
                exp = {a: res[a] for a in tref.assigns}
                idx = {ren(k_): v for k_, v in maps["monitor"].items()}
            else:
                exp = {}
                for s in tref.derivs:
                    try:
                        exp[s] = res[tref.derivs[s]] if fn == "rhs" else S.expected_update(tref, tp, res, s, 0.05, "euler" if fn == "explicit_euler" else "grl", 1e-8)[0]
                    except (E.Undefined, E.Undecidable):
                        pass
                idx = {ren(k_): v for k_, v in maps["state"].items()}
            for a, val in exp.items():
                key = a if a in idx else (f"d{n}_dt" if a == f"d{FRESH}_dt" and f"d{n}_dt" in maps["monitor"] else None)
                slot = idx.get(a, maps["monitor"].get(key) if key else None)
                if slot is None or slot >= len(r.out):
                    if (fn, "slot") not in seen:
                        seen.add((fn, "slot"))
                        out["violations"].append({"kind": "name_missing_from_map", "subkind": f"{role}|{fn}", "detail": {"ident": n, "role": role, "fn": fn, "name": inv(a), "backend": be}})
                    continue
                jv = C.judge(r.out[slot], val)
                if jv == "skip":
                    continue
                compared += 1
                if jv != "ok" and (fn, a) not in seen:
                    seen.add((fn, a))
                    out["violations"].append({"kind": "value_differs_from_renamed_twin", "subkind": f"{role}|{fn}", "detail": {"ident": n, "role": role, "fn": fn, "name": inv(a), "got": r.out[slot], "expected": float(val.v), "backend": be}})
        cn["compared"] = compared
        cn["outcome"] = {"treated_as_model_quantity": 1} if not out["violations"] else {"captured": 1}
        out["outcome"] = "equal_to_twin" if not out["violations"] else "violated"
        out["nontrivial"] = compared >= 4
    finally:
        m.close()
    return finish(out, text, spec)


def finish(out, text, spec):
    if out["violations"]:
        out["status"] = "violated"
    for v in out["violations"]:
        F.classify(ID, v, text=text, ident=spec["ident"], role=spec["role"], backend=spec["backend"], pool=spec["klass"])
    out["model_text"] = text if out["violations"] else None
    if spec["i"] % 23 == 0:
        out["sample"] = {"identifier": spec["ident"], "role": spec["role"], "backend": spec["backend"], "model_text": text, "outcome": out.get("outcome")}
    return out


def summarise(records, tier, seed):
    ag = C.aggregate(records)
    cn = ag["counters"]
    cov = {
        "evaluations": ag["evaluations"] + len(records),
        "distinct_nontrivial": len(ag["hashes"]),
        "rule": "identifier pools (template locals, module-level names, scheme helper names, Python keywords/builtins, C keywords/libm names, sympy/jax names, underscore names, grammar words, plain controls) "
        "x role {state, parameter, intermediate} x backend; the template model uses t and time and a scheme-relevant rate; each case is compared by name with the same model with the identifier renamed to a "
        "fresh name (reference of the twin); acceptable outcomes: equal values or an exception from load / generation (C: a compile error); evaluation = one generated call (or one rejected load/generation); "
        "non-trivial = rejected loudly or >= 4 values compared; distinct by (identifier, role, backend)",
        "exhaustive": True,
        "samples": C.pick_samples(records, 6),
        "per_class_cases": ag["classes"],
        "status": ag["status"],
        "outcomes": cn.get("outcome", {}),
        "values_compared": cn.get("compared", 0),
    }
    verdict = {}
    if len(ag["hashes"]) < 100:
        verdict["inconclusive"] = f"only {len(ag['hashes'])} non-trivial cases"
    return cov, ["complete over the listed identifier pools only", "a C compile error is recorded (C02), not counted as a C19 violation: it is not silent"], verdict
