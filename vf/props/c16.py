"""C16 - singularity removal changes a model only at its removable singular points."""
from __future__ import annotations

import math

import mpmath

from ..exec.pyexec import PyModule
from ..gen import models
from ..refmodel import evalref as E
from ..refmodel.model import RefModel
from . import common as C
from . import findings as F

ID = "C16"
LEVEL = "exploration"
BUDGET = {"quick": 70, "thorough": 560}

FAMILY = ["{u}/(exp({u}) - 1)", "sin({u})/({u})", "(exp({u}) - 1)/({u})", "(1 - cos({u}))/(({u})**2)", "log(1 + {u})/({u})", "({u})/({u})"]
SMOOTH = ["0.5 * {x}", "exp(-{x} * {x})", "1.5", "cos({x})"]
NONREMOVABLE = ["1/({x} - {b})", "2.5/(({x} - {b})**2)", "abs({x} - {b})/({x} - {b})"]  # poles and a jump


def plan(tier, seed):
    specs = []
    n = 320 if tier == "quick" else 3000
    for k in range(n):
        specs.append({"klass": f"{k % 4}_singularities", "i": k, "n_sing": k % 4, "fill": k >= 12})
    for k in range(48 if tier == "quick" else 400):
        # the result of remove_singularities is itself a model (finite at the former singular value): removing singularities from
        # it again must leave it as it is there.  Kept to <= 1 removable singularity (the listed k-fold finding would compound)
        specs.append({"klass": "applied_twice", "i": 20000 + k, "n_sing": (1, 1, 0)[k % 3], "fill": k >= 12, "twice": True})
    for s in specs:
        s["prop"] = ID
        s.setdefault("soft_timeout", 120)
    return specs


def mp_eval(src, env):
    ns = {"exp": mpmath.exp, "sin": mpmath.sin, "cos": mpmath.cos, "log": mpmath.log, "sqrt": mpmath.sqrt, "abs": abs, "pi": mpmath.pi,
          "Conditional": lambda c, a, b: a if c else b, "Gt": lambda a, b: a > b, "Lt": lambda a, b: a < b, "pg": mpmath.mpf(2)}
    ns.update(env)
    return eval(compile(src, "<c16>", "eval"), {"__builtins__": {}}, ns)


def two_sided_limit(src, env, var, x0):
    """-> ('removable', value) | ('nonremovable', None) | ('regular', value)"""
    with mpmath.workdps(140):
        e0 = dict(env)
        try:
            e0[var] = mpmath.mpf(x0)
            v = mp_eval(src, {k: mpmath.mpf(val) for k, val in e0.items()})
            if mpmath.isfinite(v):
                return "regular", +v
        except ZeroDivisionError:
            pass
        h = mpmath.mpf(10) ** -40
        vals = []
        for s in (-1, 1):
            e1 = {k: mpmath.mpf(val) for k, val in env.items()}
            e1[var] = mpmath.mpf(x0) + s * h
            try:
                vals.append(mp_eval(src, e1))
            except ZeroDivisionError:
                return "nonremovable", None
        a, b = vals
        if not (mpmath.isfinite(a) and mpmath.isfinite(b)):
            return "nonremovable", None
        if abs(a) > mpmath.mpf(10) ** 20 or abs(b) > mpmath.mpf(10) ** 20:
            return "nonremovable", None
        if abs(a - b) <= mpmath.mpf(10) ** -20 * (1 + abs(a)):
            return "removable", (a + b) / 2
        return "nonremovable", None


def build(rng, n_sing):
    """One or two states; the singular terms are combined by +, * or nesting; dyadic singular values."""
    two = rng.random() < 0.35
    states = ["x", "y"] if two else ["x"]
    vals = {"x": 0.625, "y": -0.375}
    terms, sing, helpers = [], [], []  # terms: (reference text, model text); sing: (state, value)
    used_a = set()
    for j in range(n_sing):
        st = rng.choice(states)
        while True:
            a = rng.choice([0.0, 1.0, 2.0, -1.0, 0.5, -0.25, 3.0, 1.5])
            if (st, a) not in used_a:
                used_a.add((st, a))
                break
        k = rng.choice([1, 1, 2, 0.5])
        inner = f"({st} - {a})" if a > 0 else (f"({st} + {abs(a)})" if a < 0 else st)
        u = inner if k == 1 else f"{k} * {inner}"
        fam = rng.choice(FAMILY)
        if "log(1 +" in fam:
            # keep the logarithm's argument positive near the singular value only: use a family member without log
            # when the sample points could make 1 + u <= 0
            fam = rng.choice(FAMILY[:4])
        term = mterm = fam.format(u=f"({u})")
        if rng.random() < 0.3:
            # the singular expression is written in an intermediate of the state (dV = V - E_K; alpha = dV/(exp(k*dV) - 1))
            helpers.append(f"u{j} = {u}")
            mterm = fam.format(u=f"(u{j})")
        if rng.random() < 0.2:
            # the singular expression is one branch of a conditional on something else (a parameter)
            wrap = rng.choice(["Conditional(Gt(pg, 1), {T}, 7)", "Conditional(Lt(pg, 1), 7, {T})"])
            term, mterm = wrap.format(T=term), wrap.format(T=mterm)
        terms.append((term, mterm))
        sing.append((st, a))
    for _ in range(rng.randint(0, 2)):
        t_ = rng.choice(SMOOTH).format(x=rng.choice(states))
        terms.append((t_, t_))
    nonrem = None
    if rng.random() < 0.3:
        st = rng.choice(states)
        b = rng.choice([4.0, -3.0, 2.5])
        t_ = rng.choice(NONREMOVABLE).format(x=st, b=b)
        terms.append((t_, t_))
        nonrem = (st, b)
    if not terms:
        terms = [("0.5 * x", "0.5 * x")]
    rng.shuffle(terms)
    expr, mexpr = terms[0]
    for t, mt in terms[1:]:
        op = rng.choice(['+', '+', '*', '-'])
        expr = f"({expr}) {op} ({t})"
        mexpr = f"({mexpr}) {op} ({mt})"
    as_inter = rng.random() < 0.5
    layout = rng.choice(["flat", "flat", "components", "stateless_component"])
    if layout == "flat":
        lines = ["parameters(pg=2.0)", "states(" + ", ".join(f"{s}={vals[s]}" for s in states) + ")", ""]
        lines += helpers
        if as_inter:
            lines += [f"w = {mexpr}", "dx_dt = w - x"]
        else:
            lines += [f"dx_dt = {mexpr}"]
        if two:
            lines.append("dy_dt = -y")
    else:
        # the singular expression may live in a component that owns other states, or no state at all
        lines = ['parameters("Membrane", pg=2.0)', 'states("Membrane", x=' + str(vals["x"]) + ")"]
        if two:
            lines.append('states("Gate", y=' + str(vals["y"]) + ")")
        lines.append("")
        if as_inter:
            home = "Rates" if layout == "stateless_component" else ("Gate" if two else "Membrane")
            lines += [f'expressions("{home}")'] + helpers + [f"w = {mexpr}", "", 'expressions("Membrane")', "dx_dt = w - x"]
        else:
            lines += ['expressions("Rates")', "unused_rate = 0.5"] + helpers + ["", 'expressions("Membrane")', f"dx_dt = {mexpr}"]
        if two:
            lines += ["", 'expressions("Gate")', "dy_dt = -y"]
    return "\n".join(lines) + "\n", states, sing, nonrem, ("w" if as_inter else "dx_dt"), expr


def run_case(spec, ctx):
    rng = C.rng_for(spec)
    out = {"violations": [], "counters": {}, "evaluations": 0, "nontrivial": False, "status": "held"}
    cn = out["counters"]
    text, states, sing, nonrem, target, expr = build(rng, spec["n_sing"]) if not spec.get("text") else (spec["text"], *spec["meta"])
    out["hash"] = models.structural_hash(text)
    ref = RefModel.from_text(text)
    lo = C.load_text(text)
    if not lo.ok:
        out.update(status="skipped", reason="rejected_by_loader: " + lo.describe())
        return out
    ode = lo.value
    rs = C.call(ode.remove_singularities)
    out["evaluations"] += 1
    if not rs.ok:
        out["violations"].append({"kind": "remove_singularities_raises", "detail": {"exc": rs.describe()[:300], "site": C.trace_site(rs.exc, 3), "expr": expr}})
        return finish(out, text, spec, sing)
    ode2 = rs.value
    if spec.get("twice"):
        rs2 = C.call(ode2.remove_singularities)
        out["evaluations"] += 1
        if not rs2.ok:
            out["violations"].append({"kind": "remove_singularities_raises", "detail": {"exc": rs2.describe()[:300], "site": C.trace_site(rs2.exc, 3), "expr": expr, "application": "second"}})
            return finish(out, text, spec, sing, ode=ode, target=target)
        once_code = C.py_code(ode2)
        if once_code.ok:
            out["_once_module"] = PyModule(once_code.value)
        ode2 = rs2.value
        cn["applied_twice"] = 1
        out["hash"] += ":twice"
    c1, c2 = C.py_code(ode), C.py_code(ode2)
    if not c1.ok:
        out.update(status="skipped", reason="original cannot be generated (C01)")
        return out
    if not c2.ok:
        out["violations"].append({"kind": "generation_fails_after_removal", "detail": {"exc": c2.describe()[:300], "expr": expr}})
        return finish(out, text, spec, sing)
    m2 = PyModule(c2.value)
    src = " ".join(expr.split())
    pts = []
    for _ in range(6):
        pts.append(("regular", {s: rng.choice([0.625, 1.25, -0.75, 2.75, 0.375, -1.625, 5.5]) for s in states}))
    for st, a in sing + ([nonrem] if nonrem else []):
        p = {s: rng.choice([0.625, 1.25, -0.75, 2.75]) for s in states}
        p[st] = a
        pts.append(("singular", p, st, a))
    n_reg = n_sing_ok = 0
    for item in pts:
        kind, p = item[0], item[1]
        env_ = dict(p)
        pt = dict(p, t=0.0, pg=2.0)
        rec = m2.call("monitor_values", pt)
        out["evaluations"] += 1
        if rec.exc is not None:
            out["violations"].append({"kind": "call_raises_after_removal", "detail": {"exc": str(rec.exc)[:200], "point": p, "expr": expr}})
            continue
        got = float(rec.out[m2.names("monitor")[target]])
        if kind == "regular":
            # is the point regular for every singular value?
            if any(p[st] == a for st, a in sing + ([nonrem] if nonrem else [])):
                continue
            try:
                with mpmath.workdps(60):
                    want = mp_eval(src, {k: mpmath.mpf(v) for k, v in env_.items()})
            except (ZeroDivisionError, ValueError):
                continue
            if not mpmath.isfinite(want) or isinstance(want, mpmath.mpc) or abs(want) > 1e12:
                continue
            n_reg += 1
            if not (math.isfinite(got) and abs(got - float(want)) <= 1e-9 * (1 + abs(float(want)))):
                out["violations"].append({"kind": "changed_at_regular_point", "detail": {"point": p, "got": got, "original": float(want), "ratio": got / float(want) if want else None, "n_removable": len(sing), "expr": expr}})
        else:
            st, a = item[2], item[3]
            # exactly one state on a singular value of the expression
            others = [(s2, a2) for s2, a2 in sing + ([nonrem] if nonrem else []) if (s2, a2) != (st, a) and p[s2] == a2]
            if others:
                continue
            try:
                cls, lim = two_sided_limit(src, env_, st, a)
            except (ValueError, ZeroDivisionError):
                continue
            if cls == "removable":
                if isinstance(lim, mpmath.mpc):
                    continue
                n_sing_ok += 1
                if not (math.isfinite(got) and abs(got - float(lim)) <= 1e-9 * (1 + abs(float(lim)))):
                    out["violations"].append({"kind": "not_the_limit_at_removable_point", "detail": {"state": st, "value": a, "point": p, "got": got, "limit": float(lim), "ratio": (got / float(lim)) if lim else None, "n_removable": len(sing), "expr": expr}})
            elif cls == "nonremovable":
                cn["nonremovable_points_seen"] = cn.get("nonremovable_points_seen", 0) + 1
                # a pole or a jump is left untouched: the value there stays what the original gives (not finite)
                if math.isfinite(got) and (st, a) == nonrem:
                    out["violations"].append({"kind": "nonremovable_singularity_replaced", "detail": {"state": st, "value": a, "point": p, "got": got, "n_removable": len(sing), "expr": expr}})
    cn["regular_points_compared"] = n_reg
    cn["removable_points_compared"] = n_sing_ok
    cn.setdefault("by_count", {})[str(len(sing))] = 1
    out["nontrivial"] = n_reg >= 2 and (n_sing_ok >= 1 or not sing)
    return finish(out, text, spec, sing, ode=ode, target=target)


def finish(out, text, spec, sing, ode=None, target=None):
    if out["violations"]:
        out["status"] = "violated"
    for v in out["violations"]:
        F.classify(ID, v, text=text, n_sing=len(sing), ode=ode, target=target, once=out.get("_once_module"), twice=bool(spec.get("twice")))
    out.pop("_once_module", None)
    out["model_text"] = text if out["violations"] else None
    if spec["i"] % 7 == 0:
        out["sample"] = {"klass": spec["klass"], "model_text": text, "singular_values": sing, "counters": out["counters"], "status": out["status"]}
    return out


def summarise(records, tier, seed):
    ag = C.aggregate(records)
    cn = ag["counters"]
    cov = {
        "evaluations": ag["evaluations"],
        "distinct_nontrivial": len(ag["hashes"]),
        "rule": "expressions with 0, 1, 2 or 3 removable singularities from {u/(exp(u)-1), sin(u)/u, (exp(u)-1)/u, (1-cos u)/u^2, u/u}, u = k(x - a) with dyadic a, in one or two states, combined by + - * with "
        "smooth terms and optionally a non-removable 1/(x-b); class applied_twice checks the model returned by a second application to the result of the first (<= 1 removable singularity); evaluation = remove_singularities() or one call of the new model's monitor_values at a regular point or with exactly one state on a singular value; "
        "reference = 60/140-digit evaluation of the original text and its two-sided limit; non-trivial = >= 2 regular and (if any) >= 1 removable point compared; distinct by structural hash",
        "samples": C.pick_samples(records),
        "per_class_cases": ag["classes"],
        "status": ag["status"],
        "regular_points_compared": cn.get("regular_points_compared", 0),
        "removable_points_compared": cn.get("removable_points_compared", 0),
        "nonremovable_points_seen": cn.get("nonremovable_points_seen", 0),
        "models_by_number_of_removable_singularities": cn.get("by_count", {}),
    }
    verdict = {}
    if len(ag["hashes"]) < (20 if tier == "quick" else 200):
        verdict["inconclusive"] = f"only {len(ag['hashes'])} non-trivial cases"
    return cov, ["the limit is the two-sided evaluation at x0 +- 1e-40 with 140 digits; removable iff both sides are finite and agree to 1e-20", "sympy time-outs in singularities()/limit() are inconclusive"], verdict
