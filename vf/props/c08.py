"""C08 - ill-formed models are rejected, never silently repaired (fault enumeration)."""
from __future__ import annotations

import random

from ..exec.pyexec import PyModule
from ..gen import faults, models
from ..gen.exprs import Profile
from ..refmodel import evalref as E
from ..refmodel.model import RefModel
from . import common as C
from . import findings as F

ID = "C08"
LEVEL = "fault_enumeration"
BUDGET = {"quick": 70, "thorough": 560}
CHUNK = 20
PROF = Profile(mod=False, ccond=False, cond=False, funcs=["exp", "sin", "cos", "sqrt", "abs"], wrap_domain=1.0, int_literals=True)


def seed_model(j):
    rng = random.Random(f"c08-seed-model:{j}")
    n_comp = [1, 1, 2, 3, 1, 2, 3, 2, 1, 2, 3, 4][j % 12]
    spec = models.gen_model(rng, PROF, n_states=[1, 2, 3, 2, 3, 2, 4, 3, 2, 3, 2, 3][j % 12], n_params=[1, 2, 3, 2, 0, 3, 2, 4, 2, 3, 1, 2][j % 12], n_inter=[2, 3, 4, 5, 3, 6, 4, 5, 8, 3, 4, 5][j % 12],
                            n_comp=n_comp, depth=2, shape=["random", "chain", "diamond", "random", "fan", "random"][j % 6], shuffle=bool(j % 2), traps=False, param_exprs=False)
    if n_comp > 1:
        # force named components (gen_model may pick the unnamed one for a single component)
        pass
    return spec


def n_faults(j):
    return sum(1 for _ in faults.catalogue(seed_model(j), random.Random(0)))


def plan(tier, seed):
    specs = []
    n_models = 12 if tier == "quick" else 12 + 60
    k = 0
    for j in range(n_models):
        jj = j if j < 12 else 1000 + seed * 100 + j
        nf = n_faults(jj)
        for lo in range(0, nf, CHUNK):
            specs.append({"klass": "fixed_seed_models" if j < 12 else "random_seed_models", "i": k, "model": jj, "lo": lo, "hi": min(nf, lo + CHUNK)})
            k += 1
    for s in specs:
        s["prop"] = ID
        s.setdefault("soft_timeout", 300)
    return specs


def try_backends(ode):
    """-> list of back ends for which code generation returned normally"""
    ok = []
    for be, fn in (("numpy", lambda: C.py_code(ode)), ("c", lambda: C.c_code(ode)), ("jax", lambda: C.py_code(ode, backend="jax"))):
        oc = fn()
        if oc.ok:
            ok.append((be, oc.value))
    return ok


def run_case(spec, ctx):
    out = {"violations": [], "counters": {}, "evaluations": 0, "nontrivial": False, "status": "held"}
    cn = out["counters"]
    base = seed_model(spec["model"])
    rng0 = random.Random(f"c08-render:{spec['model']}")
    base_text = base.render(random.Random(1))
    bref = RefModel.from_text(base_text)
    if bref.ill_formed():
        out.update(status="inconclusive", reason=f"seed model is ill-formed by the reference: {bref.ill_formed()}")
        return out
    lo0 = C.load_text(base_text)
    if not lo0.ok:
        out.update(status="skipped", reason="seed model rejected by the loader: " + lo0.describe())
        return out
    triples = set()
    outcomes = {"rejected_at_load": 0, "rejected_at_generation": 0, "accepted": 0, "benign_accepted": 0, "benign_rejected": 0}
    samples = []
    for idx, (kind, site, place, mspec, what) in enumerate(faults.catalogue(base, rng0)):
        if idx < spec["lo"] or idx >= spec["hi"]:
            continue
        try:
            text = mspec.render(random.Random(1))
        except ValueError:
            continue
        try:
            ref = RefModel.from_text(text)
        except E.Unsupported as exc:
            cn["reference_unsupported"] = cn.get("reference_unsupported", 0) + 1
            continue
        ill = ref.ill_formed()
        benign = kind.startswith("benign")
        if benign:
            if ill is not None or not ref.benign():
                cn["machinery_mismatch"] = cn.get("machinery_mismatch", 0) + 1
                continue
        elif ill is None:
            # the reference does not confirm the fault: the case is not used (never a verdict)
            cn["fault_not_confirmed_by_reference"] = cn.get("fault_not_confirmed_by_reference", 0) + 1
            continue
        out["evaluations"] += 1
        triples.add((kind, site, place))
        lo = C.load_text(text)
        if not lo.ok:
            outcomes["benign_rejected" if benign else "rejected_at_load"] += 1
            if len(samples) < 2:
                samples.append({"fault": kind, "site": site, "placement": place, "outcome": "load raised " + type(lo.exc).__name__})
            continue
        gens = try_backends(lo.value)
        if not gens:
            outcomes["benign_rejected" if benign else "rejected_at_generation"] += 1
            continue
        if benign:
            outcomes["benign_accepted"] += 1
            continue
        outcomes["accepted"] += 1
        # what did the accepted model keep?
        detail = {"fault": kind, "site": site, "placement": place, "name": what, "reference_says": list(ill), "generated_by": [g[0] for g in gens]}
        try:
            code = dict(gens).get("numpy")
            if code:
                m = PyModule(code)
                pt = bref.default_point()
                for n_ in list(ref.states) + list(ref.params):
                    pt.setdefault(n_, 0.5)
                rec = m.call("monitor_values", pt)
                if rec.exc is not None:
                    detail["call"] = f"{type(rec.exc).__name__}: {rec.exc}"[:150]
                elif what in m.names("monitor"):
                    detail["surviving_value"] = float(rec.out[m.names("monitor")[what]])
        except Exception as exc:
            detail["probe_error"] = str(exc)[:100]
        v = {"kind": "ill_formed_model_accepted", "subkind": kind, "detail": detail, "text": text}
        out["violations"].append(v)
    cn["outcomes"] = outcomes
    cn["triples"] = len(triples)
    out["triples"] = sorted("|".join(t) for t in triples)
    out["nontrivial"] = len(triples) >= 1
    out["hash"] = f"m{spec['model']}:{spec['lo']}"
    if out["violations"]:
        out["status"] = "violated"
    for v in out["violations"]:
        F.classify(ID, v, text=v.get("text"), base_text=base_text)
    out["model_text"] = (out["violations"][0].get("text") if out["violations"] else None)
    for v in out["violations"][1:]:
        v.pop("text", None)
    if spec["i"] % 5 == 0:
        out["sample"] = {"seed_model": base_text[:500], "faults": samples, "outcomes": outcomes}
    return out


def summarise(records, tier, seed):
    ag = C.aggregate(records)
    cn = ag["counters"]
    triples = set()
    for r in records:
        triples |= set(r.get("triples") or [])
    cov = {
        "evaluations": ag["evaluations"],
        "distinct_nontrivial": len(triples),
        "rule": "fault catalogue (duplicate intermediate/derivative with same deps / different deps / constants, duplicate declarations, kind clashes with equal and different values, missing / orphan "
        "derivative, undefined symbol by renaming or deletion, self / 2- / k-cycles, verbatim repetition as the benign control) injected at every site of 12 fixed seed models (1-4 components) and of "
        "random seed models (thorough); each mutated text is confirmed ill-formed by the reference scanner before use; evaluation = one faulted text loaded and generated for numpy, C and jax; "
        "distinct_nontrivial = distinct (fault kind, site kind, placement) triples exercised",
        "exhaustive": True,
        "samples": C.pick_samples(records),
        "per_class_cases": ag["classes"],
        "status": ag["status"],
        "outcomes": cn.get("outcomes", {}),
        "faults_not_confirmed_by_reference": cn.get("fault_not_confirmed_by_reference", 0),
        "triples": sorted(triples),
    }
    verdict = {}
    if len(triples) < 30:
        verdict["inconclusive"] = f"only {len(triples)} distinct fault triples"
    return cov, ["a text is ill-formed iff the reference scanner (vf/refmodel/model.py) says so by the documented rules: one definition per name, d<state>_dt pairing per component, every symbol defined, acyclic",
                 "complete over catalogue x sites of the seed models only"], verdict
