"""C13 - a component split yields complementary sub-models that reproduce the full model."""
from __future__ import annotations

import os

import numpy as np

from ..core import env
from ..exec import backends as B
from ..exec.pyexec import PyModule
from ..gen import models, points
from ..gen.exprs import Profile
from ..refmodel import evalref as E
from ..refmodel import schemes as S
from ..refmodel.model import RefModel
from . import common as C
from . import findings as F

ID = "C13"
LEVEL = "exploration"
BUDGET = {"quick": 70, "thorough": 560}


def plan(tier, seed):
    specs = [{"klass": "corpus_ORdmm_Land", "i": 0, "file": "tests/odefiles/ORdmm_Land.ode", "soft_timeout": 900, "backend": "numpy", "fill": tier == "quick" and False}]
    n = 500 if tier == "quick" else 4000
    for k in range(n):
        specs.append({"klass": "random", "i": k, "backend": ("numpy", "numpy", "jax", "c")[k % 4], "fill": k >= 16, "remove_unused": k % 5 == 2, "ref_derivs": k % 3 == 1})
    for j, h in enumerate(HAND):
        for be in ("numpy", "jax", "c"):
            for ru in (True, False):
                specs.append({"klass": "missing_variable_read_only_by_unused_definition", "i": 100000 + 6 * j + 2 * ("numpy", "jax", "c").index(be) + int(ru), "text": h, "backend": be, "remove_unused": ru})
    for s in specs:
        s["prop"] = ID
        s.setdefault("soft_timeout", 240)
    return specs


# sub-models whose missing variables are partly read by definitions nothing depends on: removing those definitions must not
# change the layout of the missing-variables array
HAND = [
    "parameters(\"A\", a=1.5)\nstates(\"A\", x=1.0, y=2.0)\nparameters(\"B\", b=0.5)\nstates(\"B\", z=3.0)\n\nexpressions(\"A\")\ndx_dt = a * (y - x)\ndy_dt = z - y\n\nexpressions(\"B\")\nx_scaled = b * x\ndz_dt = y - b * z\n",
    "parameters(\"A\", a=1.5, a2=0.25)\nstates(\"A\", x=1.0, y=2.0, v=-0.5)\nparameters(\"B\", b=0.5)\nstates(\"B\", z=3.0, q=0.75)\n\nexpressions(\"A\")\nunused_in_a = q * a2\ndx_dt = a * (y - x)\ndy_dt = z - y\ndv_dt = -v * a2 + z\n\n"
    "expressions(\"B\")\nonly_for_monitoring = b * a2 + v\nx_scaled = b * x\ndz_dt = y - b * z\ndq_dt = -q + y * 0.5\n",
]


def sub_reference(ref, comp_names):
    """Names a sub-model (the atoms tagged with any of comp_names) defines and uses."""
    states = [n for n, d in ref.states.items() if set(d.comps) & comp_names]
    params = [n for n, d in ref.params.items() if set(d.comps) & comp_names]
    assigns = [n for n, a in ref.assigns.items() if set(a.comps) & comp_names]
    used = set()
    for a in assigns:
        used |= ref.deps[a]
    missing = sorted(used - set(states) - set(params) - set(assigns) - {"t", "time"})
    return {"states": states, "params": params, "assigns": assigns, "missing": missing}


def run_case(spec, ctx):
    rng = C.rng_for(spec)
    out = {"violations": [], "counters": {}, "evaluations": 0, "nontrivial": False, "status": "held"}
    cn = out["counters"]
    be = spec["backend"]
    if spec.get("text"):
        text = spec["text"]
    elif spec.get("file"):
        text = open(os.path.join(env.REPO, spec["file"])).read()
    else:
        prof = Profile(mod=False, ccond=False, int_literals=False, hard_lits=False, funcs=["exp", "sin", "cos", "sqrt", "abs", "atan"])
        text = models.gen_model(rng, prof, depth=2, n_comp=rng.choice([2, 2, 3, 4]), n_states=rng.choice([2, 3, 4, 5]), n_inter=rng.choice([3, 5, 8, 12]), n_params=rng.choice([2, 3, 4]), ref_derivs=bool(spec.get("ref_derivs"))).render(rng)
    out["hash"] = models.structural_hash(text) + ":" + be
    try:
        ref = RefModel.from_text(text)
    except E.Unsupported as exc:
        out.update(status="skipped", reason=f"reference_unsupported: {exc}")
        return out
    if ref.ill_formed():
        out.update(status="inconclusive", reason="generator produced an ill-formed model")
        return out
    lo = C.load_text(text)
    if not lo.ok:
        out.update(status="skipped", reason="rejected_by_loader: " + lo.describe())
        return out
    ode = lo.value
    comp_names = [c.name for c in ode.components]
    if len(comp_names) < 2:
        out.update(status="skipped", reason="single-component model")
        return out
    pts, st = points.sample(ref, rng, want=3 if spec.get("tier") == "quick" else 6, max_draws=30)
    cn["points"] = st
    if len(pts) < 2:
        out.update(status="skipped", reason="too few decidable points")
        return out
    compared = 0
    splits = 0
    picks = comp_names if len(comp_names) <= 4 else [n for n in comp_names if n in ("mechanics",)] + rng.sample(comp_names, 2)
    for cname in picks:
        comp = ode.get_component(cname)
        a_ref = sub_reference(ref, {cname})
        r_ref = sub_reference(ref, set(comp_names) - {cname})
        if not a_ref["states"] or not r_ref["states"]:
            continue  # a part without states cannot be generated (no derivatives): not a split the docs describe
        oa = C.call(comp.to_ode)
        orr = C.call(lambda: ode - comp)
        if not oa.ok or not orr.ok:
            out["violations"].append({"kind": "split_raises", "detail": {"component": cname, "exc": (oa if not oa.ok else orr).describe()[:300]}})
            continue
        A, R = oa.value, orr.value
        splits += 1
        # 1. missing variables = used - defined, numbered 0..n-1
        for label, sub, sref in (("component.to_ode()", A, a_ref), ("model - component", R, r_ref)):
            mv = C.call(lambda: dict(sub.missing_variables))
            if not mv.ok:
                out["violations"].append({"kind": "missing_variables_raises", "detail": {"which": label, "exc": mv.describe()[:200]}})
                continue
            if sorted(mv.value) != sref["missing"] or sorted(mv.value.values()) != list(range(len(mv.value))):
                out["violations"].append({"kind": "missing_variables_wrong", "detail": {"which": label, "component": cname, "got": mv.value, "expected": sref["missing"]}})
        # 2. states are partitioned
        sa, sr = {s.name for s in A.states}, {s.name for s in R.states}
        shared = any(len(d.comps) > 1 for d in ref.states.values())
        if sa | sr != set(ref.states) or (not shared and sa & sr):
            out["violations"].append({"kind": "states_not_partitioned", "detail": {"component": cname, "A": sorted(sa), "R": sorted(sr), "all": sorted(ref.states)}})
        # 3. each sub-model, fed the full model's values, reproduces the full model
        for label, sub, other, sref, oref in (("component.to_ode()", A, R, a_ref, r_ref), ("model - component", R, A, r_ref, a_ref)):
            try:
                want_missing = dict(other.missing_variables)
            except Exception:
                continue
            if want_missing and spec["i"] % 2 == 1:
                # any layout may be requested for the handed-over array: here the reverse of the other model's numbering
                n_ = len(want_missing)
                want_missing = {k_: n_ - 1 - v_ for k_, v_ in want_missing.items()}
                cn["reversed_missing_values_layouts"] = cn.get("reversed_missing_values_layouts", 0) + 1
            sch = ["explicit_euler"]
            if want_missing and spec["i"] % 3 != 2:
                # the same mapping object is handed to two translations (as when modules for two back ends are generated from one
                # `other.missing_variables`): the first result is discarded, the mapping must come back unchanged and the second
                # translation - the one that is executed below - must hand over every requested value
                before = dict(want_missing)
                B.generate("numpy" if be != "numpy" else "jax", sub, schemes=sch, missing_values=want_missing, remove_unused=bool(spec.get("remove_unused")))
                cn["same_mapping_used_for_two_translations"] = cn.get("same_mapping_used_for_two_translations", 0) + 1
                if want_missing != before:
                    out["violations"].append({"kind": "requested_missing_values_mapping_modified", "detail": {"which": label, "component": cname, "before": before, "after": dict(want_missing), "backend": be}})
                    want_missing = before
                    continue
            oc = B.generate(be, sub, schemes=sch, missing_values=want_missing if want_missing else None, remove_unused=bool(spec.get("remove_unused")))
            if not oc.ok:
                out["violations"].append({"kind": "sub_model_generation_raises", "subkind": be, "detail": {"which": label, "component": cname, "backend": be, "exc": oc.describe()[:300], "site": C.trace_site(oc.exc, 3)}})
                continue
            if be == "c":
                # compile-only class: the C driver has no protocol for missing variables
                from ..exec.cexec import CModule

                cm = CModule(oc.value, [], ref.counts())
                try:
                    diag = cm.compile_check()
                finally:
                    cm.close()
                out["evaluations"] += 1
                bad = [(cc, d["errors"][:2]) for cc, d in diag.items() if d["rc"] != 0]
                if bad:
                    out["violations"].append({"kind": "sub_model_c_does_not_compile", "detail": {"which": label, "component": cname, "errors": bad[0][1], "has_missing_variables": bool(sub.missing_variables), "n_requested": len(want_missing)}})
                else:
                    compared += 1
                continue
            try:
                m = PyModule(oc.value, be)
            except Exception as exc:
                out["violations"].append({"kind": "sub_model_exec_fails", "detail": {"which": label, "exc": f"{type(exc).__name__}: {exc}"[:200], "backend": be}})
                continue
            if set(m.names("missing")) == set(sref["missing"]) and dict(m.names("missing")) != dict(sub.missing_variables):
                # the other sub-model's missing_values function is generated from sub.missing_variables: the receiving
                # module must read the handed-over array in exactly that layout
                out["violations"].append({"kind": "missing_layout_differs_from_ode_missing_variables", "detail": {"which": label, "component": cname, "module": m.names("missing"), "ode": dict(sub.missing_variables), "backend": be,
                                                                                                          "remove_unused": bool(spec.get("remove_unused"))}})
            if set(m.names("state")) != set(sref["states"]) or set(m.names("missing")) != set(sref["missing"]):
                out["violations"].append({"kind": "sub_model_maps_wrong", "detail": {"which": label, "states": sorted(m.names("state")), "missing": m.names("missing"), "expected_missing": sref["missing"]}})
                continue
            for pt, res, dec in pts:
                full = dict(pt)
                skip = False
                for n in sref["missing"]:
                    if n in pt:
                        continue
                    r_ = res.get(n)
                    if r_ is None or isinstance(r_, Exception):
                        skip = True
                        break
                    full[n] = float(r_.v)
                if skip:
                    continue
                for fn in ["rhs", "monitor_values", "explicit_euler"] + (["missing_values"] if want_missing else []):
                    dt = 0.05 if fn == "explicit_euler" else None
                    rec = m.call(fn, full, dt=dt, missing=full)
                    out["evaluations"] += 1
                    if rec.exc is not None:
                        if any(isinstance(res[a], (E.Undefined, E.Unsupported)) for a in sref["assigns"]):
                            continue
                        out["violations"].append({"kind": "sub_model_raises", "subkind": fn, "detail": {"which": label, "fn": fn, "exc": f"{type(rec.exc).__name__}: {rec.exc}"[:200], "backend": be}})
                        break
                    if fn == "missing_values":
                        if rec.out.shape != (len(want_missing),):
                            out["violations"].append({"kind": "missing_values_length", "detail": {"which": label, "shape": list(rec.out.shape), "expected": len(want_missing), "backend": be}})
                            break
                        exp = {}
                        for n, i in want_missing.items():
                            if n in pt:
                                exp[n] = (i, E.val_from_float(pt[n]))
                            elif n in res:
                                exp[n] = (i, res[n])
                    elif fn == "monitor_values":
                        exp = {n: (m.names("monitor")[n], res[n]) for n in sref["assigns"] if n in m.names("monitor")}
                        if set(m.names("monitor")) != set(sref["assigns"]):
                            out["violations"].append({"kind": "sub_model_monitor_names", "detail": {"which": label, "got": sorted(m.names("monitor"))[:10], "expected": sorted(sref["assigns"])[:10]}})
                            break
                    else:
                        exp = {}
                        for s in sref["states"]:
                            try:
                                exp[s] = (m.names("state")[s], res[ref.derivs[s]] if fn == "rhs" else S.expected_update(ref, pt, res, s, dt, "euler")[0])
                            except (E.Undefined, E.Undecidable, E.Unsupported):
                                pass
                    for n, (i, val) in exp.items():
                        jv = C.judge(float(rec.out[i]), val)
                        if jv == "skip":
                            continue
                        compared += 1
                        if jv != "ok":
                            out["violations"].append({"kind": "sub_model_value_differs_from_full_model", "subkind": fn, "detail": {"which": label, "component": cname, "fn": fn, "name": n, "slot": i, "got": float(rec.out[i]), "expected": float(val.v), "backend": be}})
                            break
    cn["compared"] = compared
    cn["splits"] = splits
    cn.setdefault("by_backend", {})[be] = compared
    out["nontrivial"] = splits >= 1 and compared >= 4
    if out["violations"]:
        out["status"] = "violated"
    for v in out["violations"]:
        F.classify(ID, v, text=text)
    out["model_text"] = text if out["violations"] and len(text) < 6000 else None
    if spec["i"] % 9 == 0:
        out["sample"] = {"klass": spec["klass"], "backend": be, "model_text": text[:700] if not spec.get("file") else spec["file"], "components": comp_names[:8], "counters": {k: v for k, v in cn.items() if k != "points"}, "status": out["status"]}
    return out


def summarise(records, tier, seed):
    ag = C.aggregate(records)
    cn = ag["counters"]
    cov = {
        "evaluations": ag["evaluations"],
        "distinct_nontrivial": len(ag["hashes"]),
        "rule": "random 2-4 component models with cross-dependencies in both directions + ORdmm_Land (the documented example); every component (with states on both sides) chosen as the split; "
        "sub-models generated as documented (missing_values=other.missing_variables), fed the full model's values for their missing variables; in two cases of three the same mapping object is first handed to another translation and must come back unchanged; evaluation = one generated call of a sub-model "
        "(rhs, monitor_values, explicit_euler, missing_values) or one compile of the C sub-model; non-trivial = >= 1 split and >= 4 values compared with the reference of the FULL text; distinct by (hash, backend)",
        "samples": C.pick_samples(records),
        "per_class_cases": ag["classes"],
        "status": ag["status"],
        "splits": cn.get("splits", 0),
        "values_compared": cn.get("compared", 0),
        "by_backend": cn.get("by_backend", {}),
    }
    verdict = {}
    if len(ag["hashes"]) < (25 if tier == "quick" else 250):
        verdict["inconclusive"] = f"only {len(ag['hashes'])} non-trivial cases"
    return cov, C.BASE_ASSUMPTIONS + ["the C back end is checked up to compilation of the sub-models (the driver has no missing-variable protocol)"], verdict
