"""C12 - removing unused variables never changes results (rhs, every scheme, layout, lengths)."""
from __future__ import annotations

from ..exec import backends as B
from ..gen import models, points
from ..gen.exprs import Profile
from ..refmodel import evalref as E
from ..refmodel import schemes as S
from ..refmodel.model import RefModel
from . import common as C
from . import findings as F

ID = "C12"
LEVEL = "exploration"
BUDGET = {"quick": 70, "thorough": 540}
SCH = ["explicit_euler", "generalized_rush_larsen", "hybrid_rush_larsen"]
DELTA = 1e-8

HAND = [
    # unused parameter, unused intermediate chain, a state only its own derivative mentions, a state nothing mentions
    "parameters(a=1.5, unused_p=3.0, only_for_unused=0.25)\nstates(x=0.5, y=1.25, lonely=2.0, self_only=0.75)\n\nu1 = only_for_unused * 2\nu2 = u1 + x\nu3 = u2 * u2\nw = a * y\ndx_dt = w - x\ndy_dt = -y * 0.5\ndlonely_dt = 1.0\ndself_only_dt = -self_only\n",
    # dropping an unused intermediate changes the order of the derivatives
    "parameters(k=2.0)\nstates(s1=1.0, s2=2.0, s3=0.5, s4=-0.25)\n\ni0 = s2 * 3\ni1 = s1 + k\ni2 = i0 + s3\nds2_dt = i1 * 0.5\nds1_dt = -s1 + s4\nds3_dt = k - s3\nds4_dt = s2 * s4\n",
    # intermediate used only in the unselected branch of a conditional
    "parameters(p=1.0)\nstates(x=0.5, y=1.5)\n\nrare = exp(y) * p\nunused_twin = exp(x)\ndx_dt = Conditional(Gt(x, 100), rare, -x)\ndy_dt = x - y\n",
]


def plan(tier, seed):
    specs = []
    k = 0
    for h in range(len(HAND)):
        for be in ("numpy", "c", "jax"):
            specs.append({"klass": "hand", "i": k, "hand": h, "backend": be})
            k += 1
    for j in range(24 if tier == "quick" else 300):
        # Rush-Larsen rate shapes: whether the |g| > delta guard is emitted must not depend on removal
        specs.append({"klass": "rate_shapes", "i": k, "backend": ("numpy", "c", "jax")[j % 3], "delta": (1e-8, 1e-3, 0.5)[(j // 3) % 3], "shapes": [("linear_k", "neg_inv_tau"), ("neg_inv_tau", "gate"), ("affine", "neg_inv_tau"), None][(j // 9) % 4]})
        k += 1
    n = 330 if tier == "quick" else 4000
    for i in range(n):
        specs.append({"klass": "random", "i": i, "backend": ("numpy", "c", "numpy", "jax")[i % 4], "fill": i >= 16})
    for s in specs:
        s["prop"] = ID
        s.setdefault("soft_timeout", 200)
    return specs


def run_case(spec, ctx):
    rng = C.rng_for(spec)
    out = {"violations": [], "counters": {}, "evaluations": 0, "nontrivial": False, "status": "held"}
    cn = out["counters"]
    be = spec["backend"]
    if spec.get("text"):
        text = spec["text"]
    elif spec["klass"] == "hand":
        text = HAND[spec["hand"]]
    elif spec["klass"] == "rate_shapes":
        from ..gen import grlmodels

        text = grlmodels.gen_grl_model(rng, n_states=rng.choice([2, 3]), shapes=list(spec["shapes"]) if spec.get("shapes") else None)[0]
        text = text.replace("parameters(k=-0.5, tau=2.0, b=0.75)", "parameters(k=-0.5, tau=2.0, b=0.75, unused_p=1.5)") + "unused_a = x0 * 3 + unused_p\nunused_b = w * k\n"
    else:
        text = models.gen_model(rng, Profile(mod=False), shape=rng.choice(["unused", "unused", "random", "fan"]), depth=2, n_inter=rng.choice([3, 5, 8, 12]), n_states=rng.choice([2, 3, 4, 5])).render(rng)
    out["hash"] = models.structural_hash(text) + ":" + be
    ref = RefModel.from_text(text)
    if ref.ill_formed():
        out.update(status="inconclusive", reason="generator produced an ill-formed model")
        return out
    lo = C.load_text(text)
    if not lo.ok:
        out.update(status="skipped", reason="rejected_by_loader: " + lo.describe())
        return out
    ode = lo.value
    stiff = sorted(ref.states)[::2]
    DELTA = spec.get("delta", 1e-8)
    used = set()
    for a in ref.assigns:
        used |= ref.deps[a]
    n_unused = len([n for n in list(ref.params) + list(ref.states) + list(ref.intermediates) if n not in used])
    cn["unused_names"] = n_unused
    sch = SCH
    oF = B.generate(be, ode, schemes=sch, delta=DELTA, stiff_states=stiff, remove_unused=False)
    if not oF.ok:
        sch = ["explicit_euler"]
        oF = B.generate(be, ode, schemes=sch, remove_unused=False)
        if not oF.ok:
            out.update(status="skipped", reason="module cannot be generated without removal either (C01-C03)")
            return out
    oT = B.generate(be, ode, schemes=sch, delta=DELTA, stiff_states=stiff, remove_unused=True)
    if not oT.ok:
        out["violations"].append({"kind": "generation_raises_only_with_removal", "detail": {"exc": oT.describe(), "site": C.trace_site(oT.exc, 4), "backend": be}})
        return finish(out, text, spec, ref, ode)
    mods = {}
    try:
        for key, code in (("F", oF.value), ("T", oT.value)):
            try:
                mods[key] = B.open_module(be, code, ref)
            except Exception as exc:
                if key == "T":
                    out["violations"].append({"kind": "exec_fails_with_removal", "detail": {"exc": f"{type(exc).__name__}: {exc}"[:300]}})
                    return finish(out, text, spec, ref, ode)
                out.update(status="skipped", reason="baseline module does not load")
                return out
        if be == "c":
            if mods["F"].compile_errors:
                out.update(status="skipped", reason="C module does not compile without removal either (C02)")
                return out
            if mods["T"].compile_errors:
                out["violations"].append({"kind": "compile_error_only_with_removal", "detail": {"errors": mods["T"].compile_errors[0][1][:3]}})
                return finish(out, text, spec, ref, ode)
            for m in mods.values():
                if not m.build(which=("asan",)):
                    out.update(status="inconclusive", reason="driver build failed")
                    return out
        mapsF, mapsT = mods["F"].maps(ref), mods["T"].maps(ref)
        for kind in ("state", "parameter"):
            if mapsF[kind] != mapsT[kind]:
                out["violations"].append({"kind": "layout_differs", "detail": {"kind": kind, "without": mapsF[kind], "with": mapsT[kind]}})
        for fn in ("init_state_values", "init_parameter_values"):
            a, b = mods["F"].run([(fn, {}, None, None)])[0], mods["T"].run([(fn, {}, None, None)])[0]
            if a.exc is None and (b.exc is not None or a.out != b.out):
                out["violations"].append({"kind": "init_differs", "detail": {"fn": fn, "without": a.out, "with": b.out, "exc": b.exc}})
        pts, st = points.sample(ref, rng, want=5 if spec.get("tier") == "quick" else 10, max_draws=40)
        cn["points"] = st
        if len(pts) < 2:
            out.update(status="skipped", reason="too few decidable points")
            return out
        if spec["klass"] == "rate_shapes":
            # place the linear coefficients k and 1/tau on both sides of the guard |g| > delta
            extra = []
            for pt, res, dec in pts[:2]:
                for kv, tv in ((DELTA / 2, 2.0), (-DELTA * (1 + 1e-3), 2.0), (-0.5, 2.0 / DELTA), (-0.5, -4.0 / DELTA), (-0.5, 1.0 / (DELTA * (1 + 1e-3))), (1e-6 if DELTA > 1e-6 else 1.0, 1e9)):
                    p2 = dict(pt, k=kv, tau=tv)
                    r2, d2 = ref.evaluate(p2)
                    extra.append((p2, r2, d2))
            pts = pts + extra
        calls, meta = [], []
        for j, (pt, res, dec) in enumerate(pts):
            for fn in ["rhs"] + sch:
                dt = None if fn == "rhs" else (0.05, 0.5, 1e-3, 0.0)[j % 4]
                calls.append((fn, pt, dt, None))
                meta.append((fn, j, dt))
        rF, rT = mods["F"].run(calls), mods["T"].run(calls)
        sidx = mapsF["state"]
        compared = bitwise = 0
        seen = set()
        for (fn, j, dt), a, b in zip(meta, rF, rT):
            out["evaluations"] += 2
            pt, res, dec = pts[j]
            if b.exc is not None:
                if a.exc is None and (fn, "exc") not in seen:
                    seen.add((fn, "exc"))
                    out["violations"].append({"kind": "raises_only_with_removal", "subkind": fn, "detail": {"fn": fn, "exc": b.exc, "san": b.san, "backend": be}})
                continue
            if a.exc is not None:
                continue
            if len(a.out) != len(b.out):
                out["violations"].append({"kind": "length_differs", "detail": {"fn": fn, "without": len(a.out), "with": len(b.out)}})
                continue
            if b.canary and (fn, "canary") not in seen:
                seen.add((fn, "canary"))
                out["violations"].append({"kind": "slot_not_written_with_removal", "detail": {"fn": fn, "slots": b.canary[:8]}})
            for s, i in sidx.items():
                kind = "euler" if fn in ("rhs", "explicit_euler") or (fn == "hybrid_rush_larsen" and s not in stiff) else "grl"
                try:
                    if fn == "rhs":
                        val = res[ref.derivs[s]]
                        if isinstance(val, Exception):
                            continue
                    else:
                        val, _ = S.expected_update(ref, pt, res, s, dt, kind, DELTA)
                except (E.Undefined, E.Undecidable, E.Unsupported):
                    continue
                if not E.well_conditioned(val):
                    continue
                compared += 1
                if a.out[i] == b.out[i] or (a.out[i] != a.out[i] and b.out[i] != b.out[i]):
                    bitwise += 1
                    continue
                tol = 2 * float(E.tolerance(val))
                if not (abs(a.out[i] - b.out[i]) <= tol) and (fn, s) not in seen:
                    seen.add((fn, s))
                    perm = sorted(sidx, key=lambda q: sidx[q])
                    moved = [q for q in perm if abs(b.out[sidx[q]] - a.out[i]) <= tol]
                    out["violations"].append({"kind": "value_differs", "subkind": fn, "detail": {"fn": fn, "state": s, "without": a.out[i], "with": b.out[i], "tol": tol, "dt": dt, "backend": be,
                                                                                             "value_found_in_slot_of": moved[:3], "reference": float(val.v)}})
        cn["compared"] = compared
        cn["bitwise_equal"] = bitwise
        cn.setdefault("by_backend", {})[be] = compared
        out["nontrivial"] = compared >= 4 and n_unused >= 1
    finally:
        for m in mods.values():
            m.close()
    return finish(out, text, spec, ref, ode)


def finish(out, text, spec, ref, ode):
    if out["violations"]:
        out["status"] = "violated"
    for v in out["violations"]:
        F.classify(ID, v, text=text, ode=ode, ref=ref)
    out["model_text"] = text if out["violations"] else None
    if spec["i"] % 9 == 0:
        out["sample"] = {"klass": spec["klass"], "backend": spec["backend"], "model_text": text[:700], "counters": {k: v for k, v in out["counters"].items() if k != "points"}, "status": out["status"]}
    return out


def summarise(records, tier, seed):
    ag = C.aggregate(records)
    cn = ag["counters"]
    cov = {
        "evaluations": ag["evaluations"],
        "distinct_nontrivial": len(ag["hashes"]),
        "rule": "hand-made models (unused parameter / state / chains, order-changing removal, unselected-branch use) + random DAGs with unused definitions x backend {numpy, jax, C}; "
        "evaluation = one generated call in the module with or without removal; non-trivial = model has >= 1 unused name and >= 4 slots (rhs + 3 schemes) compared between the two modules; "
        "distinct by (structural hash, backend)",
        "samples": C.pick_samples(records),
        "per_class_cases": ag["classes"],
        "status": ag["status"],
        "slots_compared": cn.get("compared", 0),
        "slots_bitwise_equal": cn.get("bitwise_equal", 0),
        "unused_names_in_models": cn.get("unused_names", 0),
        "by_backend": cn.get("by_backend", {}),
    }
    verdict = {}
    if len(ag["hashes"]) < (25 if tier == "quick" else 250):
        verdict["inconclusive"] = f"only {len(ag['hashes'])} distinct non-trivial cases"
    return cov, C.BASE_ASSUMPTIONS + ["the two modules are compared within twice the reference tolerance at decidable points (bitwise equality is recorded, not required)"], verdict
