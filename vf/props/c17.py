"""C17 - comments, layout and annotations are inert (and never make a loadable model fail or hang)."""
from __future__ import annotations

import json
import subprocess
import time

from ..core import env
from ..gen import models, textmut
from ..gen.exprs import Profile
from ..refmodel.model import RefModel
from . import common as C
from . import findings as F

ID = "C17"
LEVEL = "exploration"
BUDGET = {"quick": 70, "thorough": 540}
PY = "/venv/bin/python"


def plan(tier, seed):
    specs = []
    n = 48 if tier == "quick" else 700
    for k in range(n):
        specs.append({"klass": "comments", "i": k, "part": k % 4, "fill": k >= 16})
    for k in range(8 if tier == "quick" else 80):
        # the same edits on a text that repeats some definitions verbatim (accepted by the loader)
        specs.append({"klass": "comments", "i": 10000 + k, "part": k % 4, "dup": True, "fill": k >= 4})
    for k in range(6 if tier == "quick" else 60):
        specs.append({"klass": "layout", "i": k})
    for k in range(6 if tier == "quick" else 40):
        specs.append({"klass": "annotations", "i": k})
    for k in range(3 if tier == "quick" else 12):
        specs.append({"klass": "progress", "i": k, "soft_timeout": 400 if tier == "quick" else 900})
    for s in specs:
        s["prop"] = ID
        s.setdefault("soft_timeout", 240)
    return specs


def fingerprint(ode):
    """What must not change: component membership of every definition, slot layout, generated numerics."""
    member = {}
    for comp in ode.components:
        for a in list(comp.states) + list(comp.parameters) + list(comp.assignments):
            member.setdefault(a.name, set()).add(comp.name)
    layout = [s.name for s in ode.sorted_states()]
    code = C.py_code(ode, schemes=["explicit_euler"])
    return {"membership": {k: sorted(v) for k, v in member.items()}, "layout": layout, "code": code.value if code.ok else ("ERR " + code.describe())}


def bounded(text, bound):
    """Load + generate in an isolated interpreter; -> ('ok'|'raised'|'timeout', seconds, detail)"""
    job = json.dumps({"text": text, "requests": [{"key": "numpy", "backend": "numpy", "schemes": []}]})
    e = env.child_env("0")
    e["VERIF_REPO"] = env.REPO
    t0 = time.time()
    try:
        p = subprocess.run([PY, "-m", "vf.exec.fresh"], input=job, capture_output=True, text=True, env=e, cwd=env.VERIF, timeout=bound)
    except subprocess.TimeoutExpired:
        return "timeout", time.time() - t0, ""
    ok = any(l.startswith("RESULT ") for l in p.stdout.splitlines())
    return ("ok" if ok else "raised"), time.time() - t0, (p.stderr or "")[-300:]


def run_case(spec, ctx):
    rng = C.rng_for(spec)
    out = {"violations": [], "counters": {}, "evaluations": 0, "nontrivial": False, "status": "held"}
    cn = out["counters"]
    prof = Profile(mod=False, ccond=False, funcs=["exp", "sin", "sqrt", "abs"], int_literals=True)
    ms = models.gen_model(rng, prof, depth=2, n_comp=rng.choice([2, 3]), n_inter=rng.choice([4, 6, 8]), n_states=rng.choice([2, 3]), n_params=rng.choice([2, 3]), shuffle=False)
    if all(c == "" for _, _, c, _ in ms.assigns):
        ms.assigns = [(n, r, "main comp", t) for (n, r, c, t) in ms.assigns]
        ms.states = [(n, v, u, d, "main comp") for (n, v, u, d, c) in ms.states]
    if spec.get("dup"):
        for _ in range(2):
            j = rng.randrange(len(ms.assigns))
            ms.assigns.insert(j + 1, ms.assigns[j])
    lines = textmut.layout_lines(ms)
    T = textmut.join(lines)
    out["hash"] = models.structural_hash(T) + ":" + spec["klass"] + str(spec.get("part", "")) + ("dup" if spec.get("dup") else "")
    lo = C.load_text(T)
    if not lo.ok:
        out.update(status="skipped", reason="base text rejected by the loader: " + lo.describe())
        return out
    t0 = time.time()
    fp0 = fingerprint(lo.value)
    base_time = time.time() - t0
    if fp0["code"].startswith("ERR "):
        out.update(status="skipped", reason="base text cannot be generated (C01)")
        return out
    if spec["klass"] == "progress":
        bound = max(20.0, 40 * base_time)
        k_ = spec["i"]
        # quick: one text per case (the pint power tower, then the long sentences); thorough: all of them
        hang = ([textmut.HANG_TEXTS[0]] if k_ == 0 else [textmut.HANG_TEXTS[3 + (k_ - 1) % 2]]) if spec.get("tier") == "quick" else textmut.HANG_TEXTS
        for tx in hang:
            allp = list(textmut.comment_edits(lines, rng, [tx]))
            pick = [e for e in allp if e[0] == "trailing_assignment"][:1] + [e for e in allp if e[0] in ("header", "between_blocks", "trailing_declaration_block", "end_of_file")][spec["i"] % 4 :: 4][:1]
            for label, _, text in pick:
                out["evaluations"] += 1
                st, secs, det = bounded(text, bound)
                if st == "timeout":
                    st2, secs2, _ = bounded(text, bound)
                    if st2 == "timeout":
                        out["violations"].append({"kind": "exceeds_progress_bound", "subkind": label, "detail": {"placement": label, "comment": tx, "bound_s": bound, "base_s": round(base_time, 3)}, "text": text})
                    else:
                        cn["timeout_not_reproduced"] = cn.get("timeout_not_reproduced", 0) + 1
                elif st == "raised":
                    out["violations"].append({"kind": "edit_makes_load_fail", "subkind": label, "detail": {"placement": label, "comment": tx, "err": det[-200:]}, "text": text})
                cn["progress_runs"] = cn.get("progress_runs", 0) + 1
        out["nontrivial"] = cn.get("progress_runs", 0) >= 1
        return finish(out, T, spec)
    if spec["klass"] == "comments":
        part = spec.get("part", 0)
        texts = textmut.COMMENT_TEXTS[part::4]
        edits = textmut.comment_edits(lines, rng, texts)
    elif spec["klass"] == "layout":
        edits = textmut.layout_edits(lines, rng)
    else:
        edits = textmut.annotation_edits(ms, rng)
    seen = set()
    n = 0
    for label, cls, text in edits:
        n += 1
        out["evaluations"] += 1
        key = (label, cls if spec["klass"] != "comments" else textclass(cls))
        l2 = C.load_text(text)
        if not l2.ok:
            if key not in seen:
                seen.add(key)
                out["violations"].append({"kind": "edit_makes_load_fail", "subkind": f"{label}|{key[1]}", "detail": {"placement": label, "edit": cls[:60], "class": key[1], "exc": l2.describe()[:200]}, "text": text})
            continue
        fp = fingerprint(l2.value)
        for what in ("membership", "layout", "code"):
            if fp[what] != fp0[what]:
                if (key, what) in seen:
                    continue
                seen.add((key, what))
                d = {"placement": label, "edit": cls[:60], "class": key[1], "what": what}
                if what == "membership":
                    d["moved"] = {k: (fp0["membership"].get(k), v) for k, v in fp["membership"].items() if fp0["membership"].get(k) != v}
                    d["moved"] = dict(list(d["moved"].items())[:4])
                if what == "code" and fp["code"].startswith("ERR "):
                    d["generation"] = fp["code"][:200]
                out["violations"].append({"kind": f"{what}_changed", "subkind": f"{label}|{key[1]}", "detail": d, "text": text})
    cn["edits"] = n
    out["nontrivial"] = n >= 3
    return finish(out, T, spec)


def textclass(tx):
    if tx == "":
        return "bare_hash"
    if tx.startswith("#"):
        return "several_hashes"
    if tx in ("mV", "pA*pF**-1", "dimensionless", "m m m", "ms**-1 extra words", "mV # and more"):
        return "unit_like"
    if tx in ("2", "1e3", "1"):
        return "number"
    if tx in ("1/0", "2**3"):
        return "arithmetic"
    if tx in ("(", ")", "((", "'", '"'):
        return "unbalanced"
    if tx in ("**", "/"):
        return "lone_operator"
    if tx in ("x = 3", "__import__('os')", "None", "lambda"):
        return "code_like"
    if any(ch in tx for ch in "\x0b\x0c\x1c\x1d\x1e\x85\u2028\u2029"):
        return "unicode_line_boundary_character"
    if "\\" in tx:
        return "backslash"
    if len(tx) > 100:
        return "long"
    if not tx.isascii():
        return "non_ascii"
    if tx in ("x", "e", "pi", "E", "t"):
        return "single_name"
    return "words"


def finish(out, T, spec):
    if out["violations"]:
        out["status"] = "violated"
    for v in out["violations"]:
        F.classify(ID, v, text=v.get("text"), base_text=T)
    # keep every unclassified violation; cap the ones attributed to listed mechanisms
    unl = [v for v in out["violations"] if not v.get("finding")]
    lis = [v for v in out["violations"] if v.get("finding")]
    out["violations"] = unl[:25] + lis[:12]
    out["model_text"] = T if out["violations"] else None
    for v in out["violations"][3:]:
        v.pop("text", None)
    if spec["i"] % 5 == 0:
        out["sample"] = {"klass": spec["klass"], "base_text": T[:500], "counters": out["counters"], "status": out["status"]}
    return out


def summarise(records, tier, seed):
    ag = C.aggregate(records)
    cn = ag["counters"]
    cov = {
        "evaluations": ag["evaluations"],
        "distinct_nontrivial": len(ag["hashes"]),
        "rule": "2-3 component models; one edit per evaluation: a comment (34 hostile strings) inserted at header / between blocks / after an expressions header / inside a named block / trailing an assignment / "
        "trailing a declaration block / end of file; CRLF, tabs, indentation, trailing blanks, blank lines, no final newline, continuation inside parentheses, one-line declarations; unit and description "
        "annotations changed, added, removed; evaluation = one edited text loaded and fingerprinted (component membership, slot layout, generated bytes); plus bounded-progress runs in isolated interpreters "
        "for 9**9**9-type comments (bound max(20 s, 40 x in-process base time), timeout re-run once); non-trivial = >= 3 edits; distinct by (structural hash, edit class)",
        "samples": C.pick_samples(records),
        "per_class_cases": ag["classes"],
        "status": ag["status"],
        "edits_checked": cn.get("edits", 0),
        "progress_runs": cn.get("progress_runs", 0),
    }
    verdict = {}
    if len(ag["hashes"]) < (20 if tier == "quick" else 200):
        verdict["inconclusive"] = f"only {len(ag['hashes'])} non-trivial cases"
    return cov, ["'never hangs' is checked as bounded progress: load + generate within max(20 s, 40 x the unedited in-process load+generate time) in an isolated interpreter"], verdict
