"""C18 - the command line writes what the API generates and honours its options."""
from __future__ import annotations

import hashlib
import json
import os
import re
import shutil
import subprocess
import tempfile

from ..core import env
from . import common as C
from . import findings as F

ID = "C18"
LEVEL = "fault_enumeration"
BUDGET = {"quick": 80, "thorough": 600}
PY = "/venv/bin/python"

MODELS = {
    "lorenz": "parameters(sigma=12.0, rho=21.0, beta=2.4, unused_p=1.0)\nstates(x=1.0, y=2.0, z=3.05)\n\nunused_i = rho * 2\na = rho - z\ndx_dt = sigma * (y - x)\ndy_dt = x * a - y\ndz_dt = x * y - beta * z\n",
    "gates": "parameters(\"membrane\", g=0.5, E=-60.5)\nparameters(\"gate\", tau=2.0, k=1e-3)\nstates(\"membrane\", V=-87.0)\nstates(\"gate\", m=0.05, h=0.75)\n\nexpressions(\"membrane\")\nI = g * (V - E) * m * h\ndV_dt = -I + k\n\nexpressions(\"gate\")\nminf = 1 / (1 + exp(-(V + 40) / 6.8))\ndm_dt = (minf - m) / tau\ndh_dt = -h * k + Conditional(Gt(V, -40.0), 0.5, 0.25) * 1e-3\n",
    "single": "states(u=0.5)\nparameters(c=1.5)\ndu_dt = -c * u + sin(t)\n",
}
INVALID = {
    "duplicate_definition": "states(x=1.0)\nw = x * 2\nw = x * 3\ndx_dt = w\n",
    "missing_derivative": "states(x=1.0, y=2.0)\ndx_dt = -x\n",
    "undefined_symbol": "states(x=1.0)\ndx_dt = -x * nope\n",
    "orphan_derivative": "states(x=1.0)\ndx_dt = -x\ndq_dt = 1\n",
    "cycle": "states(x=1.0)\na = b + 1\nb = a * 2\ndx_dt = a\n",
    "kind_clash": "states(x=1.0)\nparameters(x=2.0)\ndx_dt = -x\n",
    "syntax_error": "states(x=1.0)\ndx_dt = -x * * 2 (\n",
}
SCHEME_SETS = [[], ["explicit_euler"], ["explicit_euler", "forward_explicit_euler"], ["forward_generalized_rush_larsen", "generalized_rush_larsen", "explicit_euler"], ["generalized_rush_larsen"], ["explicit_euler", "generalized_rush_larsen", "hybrid_rush_larsen"], ["forward_explicit_euler"], ["hybrid_rush_larsen"], ["explicit_euler", "explicit_euler"]]


def vectors(tier, rng):
    """Option vectors: every option individually and in pairs that make ignoring it observable."""
    out = []
    # ode2py
    for model in ("lorenz", "gates"):
        st = {"lorenz": ["x", "z"], "gates": ["m"]}[model]
        out.append(("ode2py", model, {}))
        for sch in SCHEME_SETS[1:]:
            out.append(("ode2py", model, {"scheme": sch}))
        out.append(("ode2py", model, {"scheme": ["hybrid_rush_larsen"], "stiff": st}))
        out.append(("ode2py", model, {"scheme": ["hybrid_rush_larsen"], "stiff": st[:1]}))
        out.append(("ode2py", model, {"scheme": ["generalized_rush_larsen"], "delta": 1e-3}))
        out.append(("ode2py", model, {"scheme": ["generalized_rush_larsen"], "delta": 0.5, "format": "none"}))
        out.append(("ode2py", model, {"remove_unused": True}))
        out.append(("ode2py", model, {"remove_unused": True, "scheme": ["explicit_euler"], "format": "none"}))
        out.append(("ode2py", model, {"format": "none"}))
        out.append(("ode2py", model, {"format": "black"}))
        out.append(("ode2py", model, {"backend": "jax"}))
        out.append(("ode2py", model, {"backend": "jax", "scheme": ["explicit_euler"], "format": "none"}))
        out.append(("ode2py", model, {"outname": "result"}))
        out.append(("ode2py", model, {"outname": "result.py"}))
        out.append(("ode2py", model, {"outname": "sub/result.txt"}))
        out.append(("ode2py", model, {"verbose": True}))
        out.append(("ode2py", model, {"config": {"scheme": ["explicit_euler"], "delta": 1e-3}, "scheme": ["generalized_rush_larsen"]}))
        out.append(("ode2py", model, {"config": {"python": {"format": "none"}}, "format": "black"}))
        out.append(("ode2py", model, {"config": {"python": {"backend": "jax"}}}))
        out.append(("ode2py", model, {"config": {"stiff_states": st, "scheme": ["hybrid_rush_larsen"]}, "config_as": "pyproject"}))
        out.append(("ode2py", model, {"config": {"delta": 0.5, "scheme": ["generalized_rush_larsen"]}, "config_as": "pyproject", "delta": 1e-8}))
        # configuration values that are "falsy" still override the command line (docs/config.md)
        out.append(("ode2py", model, {"config": {"stiff_states": [], "scheme": ["hybrid_rush_larsen"]}, "stiff": st, "format": "none"}))
        out.append(("ode2py", model, {"config": {"scheme": []}, "scheme": ["explicit_euler"], "format": "none"}))
        out.append(("ode2py", model, {"config": {"delta": 0.0, "scheme": ["generalized_rush_larsen"]}, "delta": 0.5, "format": "none"}))
        out.append(("ode2c", model, {"config": {"stiff_states": [], "scheme": ["hybrid_rush_larsen"]}, "stiff": st, "format": "none"}))
        out.append(("ode2c", model, {"config": {"delta": 0.0, "scheme": ["generalized_rush_larsen"]}, "delta": 0.5, "format": "none"}))
        # the model lives in another directory than the working directory
        out.append(("ode2py", model, {"separate_dirs": True, "outname": "out.py", "format": "none"}))
        out.append(("ode2py", model, {"separate_dirs": True, "format": "none"}))
        out.append(("ode2c", model, {"separate_dirs": True, "outname": "out.c", "to": ".c", "format": "none"}))
        out.append(("ode2c", model, {"separate_dirs": True, "format": "none"}))
        out.append(("convert", model, {"separate_dirs": True, "outname": "out.h"}))
        out.append(("convert", model, {"separate_dirs": True, "outname": "out.py"}))
        # ode2c
        out.append(("ode2c", model, {}))
        out.append(("ode2c", model, {"to": ".c"}))
        out.append(("ode2c", model, {"to": ".h"}))
        out.append(("ode2c", model, {"format": "none"}))
        out.append(("ode2c", model, {"format": "clang-format"}))
        for sch in SCHEME_SETS[1:5]:
            out.append(("ode2c", model, {"scheme": sch, "format": "none"}))
        out.append(("ode2c", model, {"scheme": ["hybrid_rush_larsen"], "stiff": st, "format": "none"}))
        out.append(("ode2c", model, {"scheme": ["generalized_rush_larsen"], "delta": 1e-3}))
        out.append(("ode2c", model, {"remove_unused": True}))
        out.append(("ode2c", model, {"outname": "result"}))
        out.append(("ode2c", model, {"outname": "result.c", "to": ".c"}))
        out.append(("ode2c", model, {"config": {"c": {"to": ".c", "format": "none"}}}))
        out.append(("ode2c", model, {"config": {"scheme": ["explicit_euler"]}, "config_as": "pyproject"}))
        # convert
        for to in (".py", "py", "python", ".c", ".h", "c"):
            out.append(("convert", model, {"to": to}))
        out.append(("convert", model, {"outname": "conv.py"}))
        out.append(("convert", model, {"outname": "conv.h"}))
        out.append(("convert", model, {"to": ".py", "scheme": ["explicit_euler"], "remove_unused": True}))
        out.append(("convert", model, {"to": ".py", "scheme": ["hybrid_rush_larsen"], "stiff": st, "delta": 1e-3}))
        out.append(("convert", model, {"to": ".py", "jax": True}))
    out.append(("ode2py", "single", {"scheme": ["explicit_euler"], "format": "none"}))
    out.append(("cellml2ode", "noble_1962.cellml", {}))
    out.append(("cellml2ode", "noble_1962.cellml", {"outname": "noble_out.ode"}))
    if tier == "thorough":
        out.append(("cellml2ode", "ToRORd_dynCl_mid.cellml", {}))
    out.append(("convert", "noble_1962.cellml", {"to": ".ode"}))
    # a target that does not exist is an error, not a silent no-op
    out.append(("convert", "lorenz", {"to": ".xyz", "expect_fail": True}))
    out.append(("convert", "lorenz", {"outname": "out.xyz", "expect_fail": True}))
    # invalid / missing inputs: every command x every fault class
    for cmd in ("ode2py", "ode2c", "convert"):
        for k in INVALID:
            out.append((cmd, "invalid:" + k, {"to": ".py"} if cmd == "convert" else {}))
        out.append((cmd, "missing_file", {"to": ".py"} if cmd == "convert" else {}))
    out.append(("ode2py", "lorenz", {"raw": ["--scheme", "no_such_scheme"], "expect_fail": True}))
    out.append(("ode2py", "lorenz", {"raw": ["--backend", "no_such_backend"], "expect_fail": True}))
    out.append(("ode2py", "lorenz", {"raw": ["--format", "no_such_format"], "expect_fail": True}))
    out.append(("ode2c", "lorenz", {"raw": ["--format", "no_such_format"], "expect_fail": True}))
    out.append(("ode2c", "lorenz", {"raw": ["--scheme", "no_such_scheme"], "expect_fail": True}))
    out.append(("cellml2ode", "missing_file", {}))
    out.append(("cellml2ode", "invalid:syntax_error", {}))
    return out


def plan(tier, seed):
    import random

    vs = vectors(tier, random.Random(seed))
    specs = []
    for k, (cmd, model, opts) in enumerate(vs):
        specs.append({"klass": cmd + ("_invalid" if model.startswith(("invalid", "missing")) or opts.get("expect_fail") else ""), "i": k, "cmd": cmd, "model": model, "opts": opts, "prop": ID, "soft_timeout": 300})
    # the command-line application driven repeatedly from ONE process (build script, notebook, test runner): convert, edit the
    # model file, convert the same path again, make the file invalid, convert again
    k = len(specs)
    for cmd, o in (("ode2py", {"format": "none"}), ("ode2c", {"format": "none"}), ("ode2c", {"format": "none", "to": ".c", "scheme": ["generalized_rush_larsen"]}),
                   ("ode2py", {"format": "none", "scheme": ["explicit_euler"], "backend": "jax"}), ("convert", {"to": ".py"}), ("convert", {"to": ".h"})):
        for first, second in (("lorenz", "gates"), ("single", "lorenz")):
            specs.append({"klass": "edit_and_rerun_in_one_process", "i": k, "cmd": cmd, "model": first, "second": second, "opts": o, "prop": ID, "soft_timeout": 300})
            k += 1
    return specs


RERUN_DRIVER = r"""
import json, os, sys
from typer.testing import CliRunner
from gotranx.cli import app
job = json.load(open("job.json"))
runner = CliRunner()
res = []
for step in job["steps"]:
    open(job["model"], "w").write(step["text"])
    if os.path.exists(job["out"]):
        os.unlink(job["out"])
    r = runner.invoke(app, job["args"])
    res.append({"exit": r.exit_code, "exists": os.path.exists(job["out"]), "text": open(job["out"]).read() if os.path.exists(job["out"]) else None, "exc": repr(r.exception)[:200] if r.exception else None})
json.dump(res, open("result.json", "w"))
"""


def run_rerun_case(spec, out, cn, scratch):
    cmd, o = spec["cmd"], dict(spec["opts"])
    steps = [MODELS[spec["model"]], MODELS[spec["second"]], MODELS[spec["model"]], INVALID["undefined_symbol"], MODELS[spec["second"]]]
    ex0 = C.call(expected_output, cmd, os.path.join(scratch, "m.ode"), o) if False else None
    # expectations through the API, each from its own file
    expect = []
    for j, t in enumerate(steps):
        if t is INVALID["undefined_symbol"]:
            expect.append(None)
            continue
        os.makedirs(os.path.join(scratch, f"exp{j}"), exist_ok=True)
        pth = os.path.join(scratch, f"exp{j}", "m.ode")
        open(pth, "w").write(t)
        ex = C.call(expected_output, cmd, pth, o)
        if not ex.ok:
            out.update(status="inconclusive", reason="API expectation failed: " + ex.describe()[:200])
            return out
        expect.append(ex.value)
    outname = expect[0][0]
    argv = argv_for(cmd, "m.ode", o, scratch)[3:]
    json.dump({"model": "m.ode", "out": outname, "args": argv, "steps": [{"text": t} for t in steps]}, open(os.path.join(scratch, "job.json"), "w"))
    open(os.path.join(scratch, "driver.py"), "w").write(RERUN_DRIVER)
    e = env.child_env("0")
    e.pop("FINSBERG_GOTRANX_VERIF", None)
    try:
        p = subprocess.run([PY, "driver.py"], cwd=scratch, env=e, capture_output=True, text=True, timeout=280)
    except subprocess.TimeoutExpired:
        out.update(status="inconclusive", reason="driver timed out")
        return out
    if p.returncode != 0 or not os.path.exists(os.path.join(scratch, "result.json")):
        out.update(status="inconclusive", reason="driver failed: " + p.stderr[-300:])
        return out
    res = json.load(open(os.path.join(scratch, "result.json")))
    out["evaluations"] = len(res)
    for j, (r, ex) in enumerate(zip(res, expect)):
        d = {"argv": argv, "step": j, "exit": r["exit"], "exc": r["exc"], "sequence": [spec["model"], spec["second"], spec["model"], "invalid", spec["second"]]}
        if ex is None:
            if r["exit"] == 0:
                out["violations"].append({"kind": "exit_zero_on_invalid_input", "subkind": f"{cmd}|rerun", "detail": d})
            if r["exists"]:
                out["violations"].append({"kind": "file_written_on_invalid_input", "subkind": f"{cmd}|rerun", "detail": d})
            continue
        if r["exit"] != 0:
            out["violations"].append({"kind": "nonzero_exit_on_valid_request", "subkind": f"{cmd}|rerun", "detail": d})
        elif not r["exists"]:
            out["violations"].append({"kind": "output_file_missing_or_elsewhere", "subkind": f"{cmd}|rerun", "detail": d})
        elif r["text"] != ex[1]:
            stale = [q for q in range(j) if expect[q] is not None and expect[q][1] == r["text"]]
            out["violations"].append({"kind": "bytes_differ_from_api", "subkind": f"{cmd}|rerun", "detail": dict(d, output_equals_api_for_earlier_step=stale[:1])})
    out["nontrivial"] = len(res) == len(steps)
    cn["rerun_steps"] = len(res)
    return finish(out, spec)


def argv_for(cmd, fname, o, scratch):
    a = [PY, "-m", "gotranx", cmd, fname]
    for s in o.get("scheme", []):
        a += ["--scheme", s]
    for s in o.get("stiff", []):
        a += ["-s", s]
    if "delta" in o:
        a += ["--delta", repr(o["delta"])]
    if o.get("remove_unused"):
        a += ["--remove-unused"]
    if "format" in o:
        a += ["-f", o["format"]]
    if "backend" in o:
        a += ["-b", o["backend"]]
    if "outname" in o:
        a += ["-o", o["outname"]]
    if "to" in o:
        a += ["--to", o["to"]]
    if o.get("verbose"):
        a += ["-v"]
    if o.get("jax"):
        a += ["--jax"]
    if o.get("config") is not None and o.get("config_as") != "pyproject":
        a += ["-c" if cmd != "cellml2ode" else "--config", "conf.toml"]
    a += o.get("raw", [])
    return a


def toml_text(cfg):
    lines = ["[tool.gotranx]"]
    for k, v in cfg.items():
        if isinstance(v, dict):
            continue
        lines.append(f"{k} = {_toml(v)}")
    for k, v in cfg.items():
        if isinstance(v, dict):
            lines.append(f"\n[tool.gotranx.{k}]")
            for kk, vv in v.items():
                lines.append(f"{kk} = {_toml(vv)}")
    return "\n".join(lines) + "\n"


def _toml(v):
    if isinstance(v, bool):
        return "true" if v else "false"
    if isinstance(v, str):
        return f'"{v}"'
    if isinstance(v, list):
        return "[" + ", ".join(_toml(x) for x in v) + "]"
    return repr(v)


def expected_output(cmd, model_path, o):
    """(relative output path, expected text) computed through the library API with the EFFECTIVE options
    (a configuration file overrides the command line, docs/config.md)."""
    from gotranx.cli import gotran2c, gotran2py
    from gotranx.codegen.c import Format as CF
    from gotranx.codegen.python import Format as PF
    from gotranx.load import load_ode
    from gotranx.schemes import Scheme

    cfg = o.get("config") or {}
    scheme = cfg.get("scheme", o.get("scheme", []))
    stiff = cfg.get("stiff_states", o.get("stiff", []))
    delta = cfg.get("delta", o.get("delta", 1e-8))
    ode = load_ode(model_path)
    stem = os.path.splitext(os.path.basename(model_path))[0]
    out = o.get("outname") or stem
    base = os.path.splitext(out)[0] if os.path.splitext(out)[1] else out
    sch = [Scheme(s) for s in scheme]
    if cmd == "ode2py" or (cmd == "convert" and (o.get("to") in (".py", "py", "python") or (not o.get("to") and out.endswith(".py")))):
        fmt = (cfg.get("python") or {}).get("format", o.get("format", "black"))
        be = (cfg.get("python") or {}).get("backend", o.get("backend", "numpy"))
        if cmd == "convert":
            # `convert` has no format option (ode2py's default applies); its --jax flag selects the backend
            fmt, be = "black", ("jax" if o.get("jax") else "numpy")
        code = gotran2py.get_code(ode, scheme=sch or ([] if cmd == "ode2py" else None), format=PF(fmt), remove_unused=bool(o.get("remove_unused")), stiff_states=stiff or ([] if cmd == "ode2py" else None), delta=delta, backend=gotran2py.Backend(be))
        return base + ".py", code
    to = (cfg.get("c") or {}).get("to", o.get("to", ".h"))
    if cmd == "convert" and not o.get("to"):
        to = os.path.splitext(out)[1]
    fmt = (cfg.get("c") or {}).get("format", o.get("format", "clang-format"))
    if cmd == "convert":
        fmt = "clang-format"
    suffix = to if to.startswith(".") else "." + to
    code = gotran2c.get_code(ode, scheme=sch or ([] if cmd == "ode2c" else None), format=CF(fmt), remove_unused=bool(o.get("remove_unused")), stiff_states=stiff or ([] if cmd == "ode2c" else None), delta=delta)
    return base + suffix, code


WRITE_FLAGS = re.compile(r"O_WRONLY|O_RDWR|O_CREAT|O_TRUNC|O_APPEND")


def files_opened_for_writing(trace_text, scratch, cwd=None):
    cwd = cwd or scratch
    out = set()
    for ln in trace_text.splitlines():
        m = re.search(r'(?:openat|creat|open)\([^"]*"([^"]+)"(.*)', ln)
        if not m:
            m2 = re.search(r'(?:rename|renameat2?|mkdir|mkdirat)\(.*"([^"]+)"', ln)
            if m2 and "= 0" in ln:
                p = m2.group(1)
                p = p if os.path.isabs(p) else os.path.join(cwd, p)
                if os.path.realpath(p).startswith(os.path.realpath(scratch)):
                    out.add(os.path.relpath(os.path.realpath(p), os.path.realpath(scratch)))
            continue
        path, rest = m.group(1), m.group(2)
        if not WRITE_FLAGS.search(rest) and "creat(" not in ln:
            continue
        if re.search(r"= -1 ", ln):
            continue
        p = path if os.path.isabs(path) else os.path.join(cwd, path)
        rp = os.path.realpath(p)
        if rp.startswith(os.path.realpath(scratch) + os.sep):
            out.add(os.path.relpath(rp, os.path.realpath(scratch)))
    return {f for f in out if "__pycache__" not in f and not f.endswith(".pyc") and f != "strace.log"}


def run_case(spec, ctx):
    out = {"violations": [], "counters": {}, "evaluations": 1, "nontrivial": False, "status": "held"}
    cn = out["counters"]
    cmd, model, o = spec["cmd"], spec["model"], dict(spec["opts"])
    scratch = tempfile.mkdtemp(prefix="c18-", dir=os.environ.get("VERIF_WORK"))
    out["hash"] = hashlib.sha256(repr((cmd, model, sorted(o.items(), key=str))).encode()).hexdigest()[:16]
    try:
        if spec["klass"] == "edit_and_rerun_in_one_process":
            return run_rerun_case(spec, out, cn, scratch)
        invalid = model.startswith("invalid:") or model == "missing_file" or o.get("expect_fail")
        if model.endswith(".cellml"):
            fname = model
            shutil.copy(os.path.join(env.REPO, "tests/cellml_files", model), os.path.join(scratch, model))
        elif model == "missing_file":
            fname = "does_not_exist.cellml" if cmd == "cellml2ode" else "does_not_exist.ode"
        elif model.startswith("invalid:"):
            fname = "bad.cellml" if cmd == "cellml2ode" else "bad.ode"
            open(os.path.join(scratch, fname), "w").write(INVALID[model.split(":", 1)[1]])
        elif o.get("separate_dirs"):
            os.makedirs(os.path.join(scratch, "models"))
            os.makedirs(os.path.join(scratch, "work"))
            open(os.path.join(scratch, "models", model + ".ode"), "w").write(MODELS[model])
            fname = os.path.join("..", "models", model + ".ode")
        else:
            fname = model + ".ode"
            open(os.path.join(scratch, fname), "w").write(MODELS[model])
        if o.get("config") is not None:
            open(os.path.join(scratch, "pyproject.toml" if o.get("config_as") == "pyproject" else "conf.toml"), "w").write(toml_text(o["config"]))
        if o.get("outname") and "/" in o["outname"]:
            os.makedirs(os.path.join(scratch, os.path.dirname(o["outname"])), exist_ok=True)
        cwd = os.path.join(scratch, "work") if o.get("separate_dirs") else scratch
        before = set(_listing(scratch))
        argv = argv_for(cmd, fname, o, scratch)
        e = env.child_env("0")
        e.pop("FINSBERG_GOTRANX_VERIF", None)
        trace = os.path.join(scratch, "strace.log")
        full = ["strace", "-f", "-o", trace, "-e", "trace=openat,open,creat,rename,renameat,renameat2,unlink,unlinkat,mkdir,mkdirat"] + argv
        try:
            p = subprocess.run(full, cwd=cwd, env=e, capture_output=True, text=True, timeout=280)
        except subprocess.TimeoutExpired:
            out.update(status="inconclusive", reason="CLI run timed out")
            return out
        ttext = open(trace).read() if os.path.exists(trace) else ""
        cn["strace_lines"] = len(ttext.splitlines())
        if not ttext:
            out.update(status="inconclusive", reason="strace produced no log: " + p.stderr[-200:])
            return out
        written = files_opened_for_writing(ttext, scratch, cwd)
        after = set(_listing(scratch)) - {"strace.log"}
        new_files = after - before
        cn["files_opened_for_writing"] = len(written)
        detail0 = {"argv": argv[2:], "exit": p.returncode, "stderr": p.stderr[-300:], "written": sorted(written), "new_files": sorted(new_files)}
        if invalid:
            if p.returncode == 0:
                out["violations"].append({"kind": "exit_zero_on_invalid_input", "subkind": f"{cmd}|{model}", "detail": detail0})
            if written or new_files:
                out["violations"].append({"kind": "file_written_on_invalid_input", "subkind": f"{cmd}|{model}", "detail": detail0})
            out["nontrivial"] = True
            cn["invalid_runs"] = 1
            return finish(out, spec)
        if p.returncode != 0:
            out["violations"].append({"kind": "nonzero_exit_on_valid_request", "subkind": f"{cmd}|{_optkey(o)}", "detail": detail0})
            return finish(out, spec)
        if cmd == "cellml2ode" or (cmd == "convert" and o.get("to") == ".ode"):
            exp_path = o.get("outname") or os.path.splitext(fname)[0] + ".ode"
            ok = os.path.exists(os.path.join(scratch, exp_path))
            if not ok:
                out["violations"].append({"kind": "output_file_missing", "subkind": cmd, "detail": dict(detail0, expected_path=exp_path)})
            else:
                from gotranx.load import load_ode

                lo = C.call(load_ode, os.path.join(scratch, exp_path))
                if not lo.ok:
                    out["violations"].append({"kind": "written_ode_cannot_be_loaded", "subkind": cmd, "detail": dict(detail0, exc=lo.describe()[:200])})
                extra = (written | new_files) - {exp_path}
                if extra:
                    out["violations"].append({"kind": "extra_file_written", "subkind": cmd, "detail": dict(detail0, extra=sorted(extra))})
            out["nontrivial"] = True
            cn["valid_runs"] = 1
            return finish(out, spec)
        ex = C.call(expected_output, cmd, os.path.normpath(os.path.join(cwd, fname)), o)
        if not ex.ok:
            out.update(status="inconclusive", reason="API expectation failed: " + ex.describe()[:200])
            return out
        exp_path, exp_text = ex.value
        if o.get("separate_dirs"):
            # -o names are relative to the working directory; without -o the output goes next to the model
            exp_path = os.path.join("work", exp_path) if o.get("outname") else os.path.join("models", exp_path)
        got_path = os.path.join(scratch, exp_path)
        if not os.path.exists(got_path):
            out["violations"].append({"kind": "output_file_missing_or_elsewhere", "subkind": f"{cmd}|{_optkey(o)}", "detail": dict(detail0, expected_path=exp_path)})
        else:
            got = open(got_path).read()
            # independent of the API expectation: every scheme named in the request is defined under that name (a name repeated in the request is emitted once per mention, as the API does)
            eff = (o.get("config") or {}).get("scheme", o.get("scheme", []))
            for sname in dict.fromkeys(eff):
                n_def = len(re.findall(r"^(?:def|void)\s+" + re.escape(sname) + r"\s*\(", got, flags=re.M))
                if n_def < 1:
                    out["violations"].append({"kind": "requested_scheme_not_defined", "subkind": f"{cmd}|{sname}", "detail": dict(detail0, scheme=sname, definitions=n_def, requested=list(eff))})
                    break
            cn["scheme_names_checked"] = cn.get("scheme_names_checked", 0) + len(set(eff))
            if got != exp_text:
                # which option was not honoured?  compare with the API output for the defaults
                d = dict(detail0, expected_path=exp_path, sha_cli=hashlib.sha256(got.encode()).hexdigest()[:12], sha_api=hashlib.sha256(exp_text.encode()).hexdigest()[:12])
                for drop in list(o):
                    if drop in ("outname", "to", "config_as"):
                        continue
                    o2 = {k: v for k, v in o.items() if k != drop}
                    alt = C.call(expected_output, cmd, os.path.normpath(os.path.join(cwd, fname)), o2)
                    if alt.ok and alt.value[1] == got:
                        d["output_equals_api_without_option"] = drop
                        break
                out["violations"].append({"kind": "bytes_differ_from_api", "subkind": f"{cmd}|{d.get('output_equals_api_without_option', _optkey(o))}", "detail": d})
        extra = (written | new_files) - {exp_path}
        if extra:
            out["violations"].append({"kind": "extra_file_written", "subkind": cmd, "detail": dict(detail0, extra=sorted(extra))})
        out["nontrivial"] = True
        cn["valid_runs"] = 1
        return finish(out, spec)
    finally:
        shutil.rmtree(scratch, ignore_errors=True)


def _optkey(o):
    return ",".join(sorted(k for k in o if k not in ("config_as",)))


def _listing(d):
    res = []
    for root, dirs, files in os.walk(d):
        dirs[:] = [x for x in dirs if x != "__pycache__"]
        for f in files:
            res.append(os.path.relpath(os.path.join(root, f), d))
    return res


def finish(out, spec):
    if out["violations"]:
        out["status"] = "violated"
    for v in out["violations"]:
        F.classify(ID, v, cmd=spec["cmd"], model=spec["model"], opts=spec["opts"])
    if spec["i"] % 13 == 0:
        out["sample"] = {"cmd": spec["cmd"], "model": spec["model"], "opts": spec["opts"], "status": out["status"], "counters": out["counters"]}
    return out


def summarise(records, tier, seed):
    ag = C.aggregate(records)
    cn = ag["counters"]
    cov = {
        "evaluations": ag["evaluations"],
        "distinct_nontrivial": len(ag["hashes"]),
        "rule": "option vectors for ode2py / ode2c / convert / cellml2ode on 3 models + 1-2 CellML files: every option alone and in combinations where ignoring it changes the API output (scheme lists incl. "
        "repeated and deprecated names, -s, --delta, --remove-unused, -f, -b, -o with and without suffix and sub-directory, --to, -v, --jax, -c file and pyproject.toml overriding the command line); invalid-input half: "
        "8 fault classes + missing file x 3 commands, unknown scheme/backend/format values; each run is `python -m gotranx` in a fresh scratch directory under strace; class edit_and_rerun_in_one_process drives the typer application five times from one interpreter (convert, edit the file, convert, invalid file, repaired file) and compares each output with the API text for the file as it is on disk at that step; every requested scheme name must be defined in the written file (independent of the API text); evaluation = one CLI run; "
        "non-trivial = the run reached its verdict (bytes vs API / exit status + files opened for writing); distinct by option vector",
        "exhaustive": True,
        "samples": C.pick_samples(records, 6),
        "per_class_cases": ag["classes"],
        "status": ag["status"],
        "valid_runs": cn.get("valid_runs", 0),
        "invalid_runs": cn.get("invalid_runs", 0),
        "strace_lines_parsed": cn.get("strace_lines", 0),
    }
    verdict = {}
    if len(ag["hashes"]) < 60:
        verdict["inconclusive"] = f"only {len(ag['hashes'])} runs reached a verdict"
    return cov, ["the expectation is the library API called with the effective options (configuration file overrides command line, docs/config.md)", "strace -f sees every open-for-writing in the scratch directory, including files created and removed",
                 "`black` and `clang-format` are on PATH via /venv/bin (the CLI defaults need them)"], verdict
