"""Shared helpers of the property modules: case construction, gotranx boundary calls with
outcome recording, comparison with triage, aggregation."""
from __future__ import annotations

import os
import random
import time

import numpy as np

from ..core import env
from ..gen import classes, models
from ..gen.exprs import Profile
from ..refmodel import evalref as E
from ..refmodel.model import RefModel


def rng_for(spec, salt=""):
    return random.Random(f"{spec.get('seed', 0)}:{spec.get('prop', '')}:{spec.get('klass')}:{spec.get('i')}:{salt}")


class Outcome:
    """Result of one boundary call: value or exception (type, message)."""

    def __init__(self, value=None, exc=None, wall=0.0):
        self.value = value
        self.exc = exc
        self.wall = wall

    @property
    def ok(self):
        return self.exc is None

    def describe(self):
        if self.exc is None:
            return "ok"
        return f"{type(self.exc).__name__}: {str(self.exc)[:300]}"


def call(fn, *a, **kw) -> Outcome:
    t0 = time.time()
    try:
        v = fn(*a, **kw)
        return Outcome(v, None, time.time() - t0)
    except Exception as exc:  # the event is the exception itself
        if type(exc).__name__ == "CaseTimeout":
            raise
        return Outcome(None, exc, time.time() - t0)


def gx():
    return env.prepare()


def load_text(text, name="ode") -> Outcome:
    gx()
    from gotranx.load import ode_from_string

    return call(ode_from_string, text, name=name)


def scheme_enum(names):
    from gotranx.schemes import Scheme

    return [Scheme(n) for n in names]


def py_code(ode, schemes=None, backend="numpy", **kw) -> Outcome:
    from gotranx.cli import gotran2py
    from gotranx.codegen.python import Format

    sch = scheme_enum(schemes) if schemes else None
    be = gotran2py.Backend(backend)
    return call(gotran2py.get_code, ode, scheme=sch, format=Format.none, backend=be, **kw)


def c_code(ode, schemes=None, **kw) -> Outcome:
    from gotranx.cli import gotran2c
    from gotranx.codegen.c import Format

    sch = scheme_enum(schemes) if schemes else None
    return call(gotran2c.get_code, ode, scheme=sch, format=Format.none, **kw)


def trace_site(exc, depth=3):
    """Innermost gotranx frames of an exception (for finding matchers)."""
    import traceback

    out = []
    for fr in traceback.extract_tb(exc.__traceback__):
        if "gotranx" in fr.filename or "sympy" in fr.filename:
            out.append(f"{os.path.basename(fr.filename)}:{fr.name}")
    return out[-depth:]


# ---------------------------------------------------------------- comparison

def judge(got, val):
    """-> 'ok' | 'skip' | ('bad', diff, tol)"""
    if isinstance(val, Exception):
        return "skip"
    if not E.well_conditioned(val):
        return "skip"
    if E.agrees(float(got), val):
        return "ok"
    return ("bad", float(abs(E.mpf(float(got)) - val.v)) if np.isfinite(got) else float("inf"), float(E.tolerance(val)))


def triage(ref: RefModel, point, name, got, wrt=None, frozen=False):
    """Re-evaluate with literals as nearest doubles and with a tighter decision margin.
    -> 'fragile' if the point's verdict is not robust, else 'confirmed'."""
    try:
        ev = ref.evaluator(point, wrt=wrt, frozen=frozen, literal_mode="double")
        v2 = ev.value_of(name)
        if E.agrees(float(got), v2):
            return "fragile"
        ev3 = ref.evaluator(point, wrt=wrt, frozen=frozen)
        ev3.relmargin = E.mpf("1e-4")
        v3 = ev3.value_of(name)
        if E.agrees(float(got), v3):
            return "fragile"
    except (E.Undefined, E.Undecidable):
        return "fragile"
    return "confirmed"


def sympy_stage(ode, name, point):
    """Value of the symbolic stage ode[name].expr at the point (localisation only)."""
    import sympy

    try:
        subs = {}
        for n, v in point.items():
            if n == "t":
                subs[ode.t] = sympy.Float(v, 30)
            elif n in ode.symbols:
                subs[ode.symbols[n]] = sympy.Float(v, 30)
        expr = ode[name].expr
        for _ in range(80):
            fs = [s for s in expr.free_symbols if s not in subs]
            if not fs:
                break
            rep = {}
            for s in fs:
                a = ode._lookup.get(s.name)
                if a is None or not hasattr(a, "expr"):
                    return None
                rep[s] = a.expr
            expr = expr.xreplace(rep)
        return float(expr.xreplace(subs).evalf(30))
    except Exception:
        return None


# ----------------------------------------------------------------- summaries

def aggregate(records, nontrivial_key="nontrivial"):
    counters = {}
    classes_ = {}
    hashes = set()
    evaluations = 0
    status = {}
    for r in records:
        status[r.get("status", "?")] = status.get(r.get("status", "?"), 0) + 1
        k = r.get("klass") or "?"
        classes_[k] = classes_.get(k, 0) + 1
        evaluations += int(r.get("evaluations", 0))
        for c, v in (r.get("counters") or {}).items():
            if isinstance(v, (int, float)):
                counters[c] = counters.get(c, 0) + v
            elif isinstance(v, dict):
                d = counters.setdefault(c, {})
                for kk, vv in v.items():
                    if isinstance(vv, (int, float)):
                        d[kk] = d.get(kk, 0) + vv
        if r.get(nontrivial_key) and r.get("hash"):
            hashes.add(r["hash"])
    return {"counters": counters, "classes": classes_, "hashes": hashes, "evaluations": evaluations, "status": status}


def pick_samples(records, n=4):
    out = []
    seen = set()
    for r in records:
        s = r.get("sample")
        if not s:
            continue
        k = r.get("klass")
        if k in seen and len(out) >= 2:
            continue
        seen.add(k)
        out.append(s)
        if len(out) >= n:
            break
    return out


BASE_ASSUMPTIONS = [
    "CPython's ast parser defines precedence/associativity of the expression language",
    "mpmath (60 digits) and the reference evaluator vf/refmodel (running error bound, decision margins) are correct",
    "points within 1e-6 (relative) of a discontinuity, or ill-conditioned (err > 1e-9*|value|), are not judged",
    "points where a sub-expression of the model text exceeds 1e300 or is below 1e-290 in magnitude are not judged (a saturated ContinuousConditional weight counts as 0 / 1); "
    "a derivative with respect to a variable that sits exactly on the switching point of a relation is not judged",
    "sampled exploration: says nothing about models, inputs or options the workload did not produce",
]
