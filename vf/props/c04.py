"""C04 - names and array slots agree across every generated function, backend and argument order."""
from __future__ import annotations

import inspect
import itertools
import re

import numpy as np

from ..exec import backends as B
from ..exec.cexec import CModule
from ..exec.pyexec import PyModule
from ..gen import models, points
from ..gen.exprs import Profile
from ..refmodel import evalref as E
from ..refmodel import schemes as S
from ..refmodel.model import RefModel
from . import common as C
from . import findings as F

ID = "C04"
LEVEL = "exploration"
BUDGET = {"quick": 75, "thorough": 560}
RHS_ORDERS = ["".join(p) for p in itertools.permutations("stp")]
SCHEME_ORDERS = ["".join(p) for p in itertools.permutations("stpd")]
ARG = {"s": "states", "t": "t", "p": "parameters", "d": "dt"}

PREFIX_MODEL = """parameters(a=1.5, aa=2.5, a1=0.75, a_=3.25)
states(x=0.5, xx=1.25, x1=-0.75, x_=2.0, X=0.125)

w = a * x + aa
ww = w * 2 + a1
dx_dt = ww - x
dxx_dt = w - xx * a_
dx1_dt = x_ * x1 + X
dx__dt = -x_ + 0.25 * xx
dX_dt = x - X * 3
"""


def plan(tier, seed):
    specs = []
    k = 0
    for be in ("numpy", "jax", "c"):
        specs.append({"klass": "prefix_names", "i": k, "backend": be, "orders": True})
        k += 1
    n = 240 if tier == "quick" else 2500
    for i in range(n):
        be = ("numpy", "jax", "c")[i % 3]
        specs.append({"klass": "random", "i": i, "backend": be, "orders": i < 9 or i % 10 == 0, "fill": i >= 12, "remove_unused": i % 4 == 1})
    for s in specs:
        s["prop"] = ID
        s.setdefault("soft_timeout", 400)
    return specs


def probes(ref):
    st, pa, mo = list(ref.states), list(ref.params), list(ref.assigns)
    out = {"state": set(), "parameter": set(), "monitor": set()}
    for kind, names, others in (("state", st, pa + mo), ("parameter", pa, st + mo), ("monitor", mo, st + pa)):
        pr = {"", "no_such_name", "ångström"}
        for n in names[:6]:
            pr |= {n.upper() if n.upper() != n else n.lower(), n[:-1], n[1:], n + "_", n + "x", "_" + n, n + n}
        pr |= set(others[:4])
        out[kind] = sorted(p for p in pr if p not in names)
    return out


def distinct_point(ref, pts):
    """A decidable point where all derivative values and all monitored values are pairwise distinct."""
    for pt, res, dec in pts:
        vals = []
        ok = True
        for n in ref.assigns:
            r = res[n]
            if isinstance(r, Exception) or not E.well_conditioned(r):
                ok = False
                break
            vals.append(float(r.v))
        if not ok:
            continue
        vals += [pt[s] + 0.25 * float(res[dn].v) for s, dn in ref.derivs.items()]
        srt = sorted(vals)
        if all(abs(a - b) > 1e-6 * max(1.0, abs(a)) for a, b in zip(srt, srt[1:])):
            return pt, res
    return None


def py_generator(ode, backend):
    from gotranx.codegen.jax import JaxCodeGenerator
    from gotranx.codegen.python import Format, PythonCodeGenerator

    cls = JaxCodeGenerator if backend == "jax" else PythonCodeGenerator
    return cls(ode, format=Format.none)


def check_py_orders(ode, ref, backend, pt, res, expected_state, expected_mon, out, cn, raises_by_default=()):
    from gotranx.schemes import get_scheme

    cg = py_generator(ode, backend)
    head = "\n".join([cg.imports(), cg.parameter_index(), cg.state_index(), cg.monitor_index()])
    n_orders = 0
    base = PyModule(head, backend)
    sidx, pidx, midx = base.names("state"), base.names("parameter"), base.names("monitor")
    s = np.zeros(len(sidx))
    p = np.zeros(len(pidx))
    for n, i in sidx.items():
        s[i] = pt[n]
    for n, i in pidx.items():
        p[i] = pt[n]
    vals = {"s": s, "t": np.float64(pt["t"]), "p": p, "d": np.float64(0.25)}
    jobs = [("rhs", o, None) for o in RHS_ORDERS] + [("monitor_values", o, None) for o in RHS_ORDERS]
    jobs += [(sc, o, sc) for sc in ("explicit_euler", "generalized_rush_larsen") for o in SCHEME_ORDERS]
    for fn, order, scheme in jobs:
        try:
            if scheme:
                code = cg.scheme(get_scheme(scheme), order=order)
            else:
                code = getattr(cg, fn)(order=order)
        except Exception as exc:
            out["violations"].append({"kind": "order_generation_raises", "detail": {"fn": fn, "order": order, "exc": f"{type(exc).__name__}: {exc}"[:200], "backend": backend}})
            continue
        mod = PyModule(head + "\n" + code, backend)
        f = mod.ns[fn]
        params = list(inspect.signature(getattr(f, "__wrapped__", f)).parameters)
        want = [ARG[ch] for ch in order]
        if params != want:
            out["violations"].append({"kind": "formal_parameters", "detail": {"fn": fn, "order": order, "got": params, "want": want, "backend": backend}})
            continue
        try:
            r = np.asarray(f(*[vals[ch] for ch in order]))
        except Exception as exc:
            if fn in raises_by_default:
                continue  # the function raises in its default order too: not an argument-order event (C01-C03)
            out["violations"].append({"kind": "order_call_raises", "detail": {"fn": fn, "order": order, "exc": f"{type(exc).__name__}: {exc}"[:200], "backend": backend}})
            continue
        n_orders += 1
        out["evaluations"] += 1
        exp, idx = (expected_mon, midx) if fn == "monitor_values" else (expected_state[fn], sidx)
        if r.shape != (len(idx),):
            out["violations"].append({"kind": "length", "detail": {"fn": fn, "order": order, "shape": list(r.shape), "expected": len(idx), "backend": backend}})
            continue
        for n, val in exp.items():
            if isinstance(val, Exception):
                continue
            if C.judge(float(r[idx[n]]), val) not in ("ok", "skip"):
                where = [q for q, v2 in exp.items() if not isinstance(v2, Exception) and C.judge(float(r[idx[n]]), v2) == "ok"]
                out["violations"].append({"kind": "wrong_slot_or_value", "detail": {"fn": fn, "order": order, "name": n, "slot": idx[n], "got": float(r[idx[n]]), "expected": float(val.v), "value_belongs_to": where[:3], "backend": backend}})
                break
    cn["orders_executed"] = cn.get("orders_executed", 0) + n_orders


def c_prototype_order(code, fn):
    m = re.search(rf"^void {fn}\(([^)]*)\)", code, flags=re.M)
    if not m:
        return None
    return B.CBackendModule._order(m.group(1))


def check_c_orders(ode, ref, pt, res, expected_state, expected_mon, out, cn, sidx, pidx, midx, full=True):
    from gotranx.codegen.c import CCodeGenerator, Format
    from gotranx.schemes import get_scheme

    cg = CCodeGenerator(ode, format=Format.none)
    head = "\n".join([cg.imports(), f"int NUM_STATES = {len(ref.states)};", f"int NUM_PARAMS = {len(ref.params)};", f"int NUM_MONITORED = {len(ref.assigns)};",
                      cg.parameter_index(), cg.state_index(), cg.monitor_index(), cg.initial_parameter_values(), cg.initial_state_values()])
    jobs = [("rhs", o, None) for o in RHS_ORDERS] + [("monitor_values", o, None) for o in RHS_ORDERS]
    sch_orders = SCHEME_ORDERS if full else SCHEME_ORDERS[::4]
    jobs += [(sc, o, sc) for sc in ("explicit_euler", "generalized_rush_larsen") for o in sch_orders]
    s = [0.0] * len(sidx)
    p = [0.0] * len(pidx)
    for n, i in sidx.items():
        s[i] = pt[n]
    for n, i in pidx.items():
        p[i] = pt[n]
    n_orders = 0
    for fn, order, scheme in jobs:
        try:
            body = cg.scheme(get_scheme(scheme), order=order) if scheme else getattr(cg, fn)(order=order)
        except Exception as exc:
            out["violations"].append({"kind": "order_generation_raises", "detail": {"fn": fn, "order": order, "exc": f"{type(exc).__name__}: {exc}"[:200], "backend": "c"}})
            continue
        code = head + "\n" + body
        got_order = c_prototype_order(code, fn)
        if got_order != order:
            out["violations"].append({"kind": "formal_parameters", "detail": {"fn": fn, "order": order, "prototype_order": got_order, "backend": "c"}})
            continue
        cm = CModule(code, [(fn, "scheme" if scheme else "rhs", order)], ref.counts())
        try:
            if cm.build(which=("asan",))["asan"][0] != 0:
                out["violations"].append({"kind": "order_compile_error", "detail": {"fn": fn, "order": order, "err": cm.diag["build"]["asan"]["err"][-300:], "backend": "c"}})
                continue
            rs, info = cm.run("asan", [("C", 0, pt["t"], 0.25, s, p, [])])
        finally:
            cm.close()
        r = rs[0]
        out["evaluations"] += 1
        if r is None or r.aborted:
            out["violations"].append({"kind": "sanitizer", "detail": {"fn": fn, "order": order, "report": (r.report if r else str(info))[-400:], "backend": "c"}})
            continue
        if r.canary:
            out["violations"].append({"kind": "slot_not_written", "detail": {"fn": fn, "order": order, "slots": r.canary[:8], "backend": "c"}})
            continue
        n_orders += 1
        exp, idx = (expected_mon, midx) if fn == "monitor_values" else (expected_state[fn], sidx)
        for n, val in exp.items():
            if isinstance(val, Exception):
                continue
            if C.judge(r.out[idx[n]], val) not in ("ok", "skip"):
                where = [q for q, v2 in exp.items() if not isinstance(v2, Exception) and C.judge(r.out[idx[n]], v2) == "ok"]
                out["violations"].append({"kind": "wrong_slot_or_value", "detail": {"fn": fn, "order": order, "name": n, "slot": idx[n], "got": r.out[idx[n]], "expected": float(val.v), "value_belongs_to": where[:3], "backend": "c"}})
                break
    cn["orders_executed"] = cn.get("orders_executed", 0) + n_orders


def run_case(spec, ctx):
    rng = C.rng_for(spec)
    out = {"violations": [], "counters": {}, "evaluations": 0, "nontrivial": False, "status": "held"}
    cn = out["counters"]
    be = spec["backend"]
    if spec.get("text"):
        text = spec["text"]
    elif spec["klass"] == "prefix_names":
        text = PREFIX_MODEL
    else:
        # int literals, Mod and conditionals with folded constants are C02/C01 subjects: keep expressions simple, shapes rich
        prof = Profile(mod=False, int_literals=False, hard_lits=False, ccond=False, funcs=["exp", "sin", "cos", "atan", "abs", "sqrt"], pow=False)
        kw = {"shape": "unused"} if spec.get("remove_unused") else {}
        text = models.gen_model(rng, prof, depth=2, n_states=rng.choice([2, 3, 4, 5, 6, 8]), n_inter=rng.choice([2, 4, 6, 10]), n_comp=rng.choice([1, 2, 3]), **kw).render(rng)
    out["hash"] = models.structural_hash(text) + ":" + be
    ref = RefModel.from_text(text)
    if ref.ill_formed():
        out.update(status="inconclusive", reason="generator produced an ill-formed model")
        return out
    lo = C.load_text(text)
    if not lo.ok:
        out.update(status="skipped", reason="rejected_by_loader: " + lo.describe())
        return out
    ode = lo.value
    sch = ["explicit_euler", "generalized_rush_larsen"]
    oc = B.generate(be, ode, schemes=sch, remove_unused=bool(spec.get("remove_unused")))
    if not oc.ok:
        out.update(status="skipped", reason="module cannot be generated (C01-C03): " + oc.describe()[:100])
        return out
    try:
        m = B.open_module(be, oc.value, ref)
    except Exception as exc:
        out.update(status="skipped", reason="module does not load (C01-C03)")
        return out
    try:
        if be == "c":
            if m.compile_errors:
                out.update(status="skipped", reason="C module does not compile (C02)")
                return out
            if not m.build(which=("asan",)):
                out.update(status="inconclusive", reason="driver build failed")
                return out
        maps = m.maps(ref)
        # 1. index maps: bijections onto 0..n-1 with exactly the model's names
        truth = {"state": list(ref.states), "parameter": list(ref.params), "monitor": list(ref.assigns)}
        for kind, names in truth.items():
            mp = maps[kind]
            if set(mp) != set(names) or sorted(mp.values()) != list(range(len(names))):
                out["violations"].append({"kind": "index_map", "detail": {"kind": kind, "map": mp, "names": names, "backend": be}})
        cn["index_entries"] = sum(len(v) for v in truth.values())
        # declared counts
        if be == "c":
            if m.consts() != [len(ref.states), len(ref.params), len(ref.assigns)]:
                out["violations"].append({"kind": "declared_counts", "detail": {"consts": m.consts(), "expected": [len(ref.states), len(ref.params), len(ref.assigns)]}})
        # 2. unknown names are refused
        pr = probes(ref)
        n_probe = 0
        if be == "c":
            kinds = {"state": 0, "parameter": 1, "monitor": 2}
            reqs = [("N", kinds[k], p) for k in kinds for p in pr[k] if p.isascii() and " " not in p]
            rs, _ = m.cm.run("asan", reqs)
            for (tag, kk, p), r in zip(reqs, rs):
                n_probe += 1
                if r != -1:
                    out["violations"].append({"kind": "unknown_name_accepted", "detail": {"kind": kk, "probe": p, "returned": r, "backend": be}})
        else:
            for k in ("state", "parameter", "monitor"):
                f = m.m.ns[f"{k}_index"]
                for p in pr[k]:
                    n_probe += 1
                    try:
                        r = f(p)
                        out["violations"].append({"kind": "unknown_name_accepted", "detail": {"kind": k, "probe": p, "returned": r, "backend": be}})
                    except KeyError:
                        pass
                    except Exception as exc:
                        out["violations"].append({"kind": "unknown_name_other_error", "detail": {"kind": k, "probe": p, "exc": f"{type(exc).__name__}: {exc}"[:100], "backend": be}})
        cn["unknown_name_probes"] = n_probe
        # 3. initial values: defaults in their slots, keyword overrides touch exactly one slot
        for fn, kind in (("init_state_values", "state"), ("init_parameter_values", "parameter")):
            r = m.run([(fn, {}, None, None)])[0]
            names = truth[kind]
            if r.exc is not None or len(r.out) != len(names) or r.canary:
                out["violations"].append({"kind": "init_shape", "detail": {"fn": fn, "exc": r.exc, "len": None if r.out is None else len(r.out), "canary": r.canary, "expected": len(names), "backend": be}})
                continue
            for n in names:
                try:
                    val = ref.decl_value(n)
                except (E.Undefined, E.Undecidable, E.Unsupported):
                    continue
                if C.judge(r.out[maps[kind][n]], val) not in ("ok", "skip"):
                    owners = []
                    for n2 in names:
                        try:
                            if n2 != n and C.judge(r.out[maps[kind][n]], ref.decl_value(n2)) == "ok":
                                owners.append(n2)
                        except (E.Undefined, E.Undecidable, E.Unsupported):
                            pass
                    if owners and be == "c":
                        # a wrong default that equals another name's default is a slot event only if the value itself is computed
                        # correctly: C evaluates 3/2 in int (C02's subject); with the literals typed double the slot must agree
                        from .c02 import int_to_double

                        alt = int_to_double(oc.value)
                        if alt != oc.value:
                            m2 = B.open_module(be, alt, ref)
                            try:
                                if not m2.compile_errors and m2.build(which=("asan",)):
                                    r2 = m2.run([(fn, {}, None, None)])[0]
                                    if r2.exc is None and C.judge(r2.out[maps[kind][n]], val) == "ok":
                                        cn["init_value_defects_attributed_to_C02"] = cn.get("init_value_defects_attributed_to_C02", 0) + 1
                                        owners = []
                            finally:
                                m2.close()
                    if owners:
                        out["violations"].append({"kind": "init_default_slot", "detail": {"fn": fn, "name": n, "slot": maps[kind][n], "got": r.out[maps[kind][n]], "expected": float(val.v), "value_belongs_to": owners[:3], "backend": be}})
                    else:
                        # a wrong value that is no other name's default is a value defect (C01-C03), not a slot mix-up
                        cn["init_value_defects_not_slot_events"] = cn.get("init_value_defects_not_slot_events", 0) + 1
            if be != "c" and names:
                for n in names[:4]:
                    r2 = m.run([(fn, {n: 123.456}, None, None)])[0]
                    out["evaluations"] += 1
                    if r2.exc is not None:
                        out["violations"].append({"kind": "init_override_raises", "detail": {"fn": fn, "name": n, "exc": r2.exc, "backend": be}})
                        continue
                    diff = [i for i, (a, b) in enumerate(zip(r.out, r2.out)) if a != b]
                    if r2.out[maps[kind][n]] != 123.456 or any(i != maps[kind][n] for i in diff):
                        out["violations"].append({"kind": "init_override_slot", "detail": {"fn": fn, "name": n, "changed_slots": diff, "slot": maps[kind][n], "backend": be}})
                r3 = m.run([(fn, {"certainly_not_a_name": 1.0}, None, None)])[0]
                if r3.exc is None:
                    out["violations"].append({"kind": "init_unknown_keyword_accepted", "detail": {"fn": fn, "backend": be}})
        # 4. values in the slots the index functions report
        pts, st = points.sample(ref, rng, want=10, max_draws=60)
        dp = distinct_point(ref, pts)
        if dp is None:
            out.update(status="skipped", reason="no point with pairwise distinct values")
            return out
        pt, res = dp
        expected_mon = dict(res)
        expected_state = {"rhs": {s: res[dn] for s, dn in ref.derivs.items()}}
        for fn, kind in (("explicit_euler", "euler"), ("generalized_rush_larsen", "grl")):
            d = {}
            for s in ref.derivs:
                try:
                    d[s] = S.expected_update(ref, pt, res, s, 0.25, kind, 1e-8)[0]
                except (E.Undefined, E.Undecidable, E.Unsupported) as exc:
                    d[s] = exc
            expected_state[fn] = d
        calls = [("rhs", pt, None, None), ("monitor_values", pt, None, None), ("explicit_euler", pt, 0.25, None), ("generalized_rush_larsen", pt, 0.25, None)]
        rs = m.run(calls)
        compared = 0
        raised = {c[0] for c, r in zip(calls, rs) if r.exc is not None}
        for (fn, _, _, _), r in zip(calls, rs):
            out["evaluations"] += 1
            exp, idx = (expected_mon, maps["monitor"]) if fn == "monitor_values" else (expected_state[fn], maps["state"])
            if r.exc is not None:
                if r.san and "AddressSanitizer" in r.san:
                    out["violations"].append({"kind": "sanitizer", "detail": {"fn": fn, "report": r.san[-500:], "backend": be}})
                else:
                    cn["function_raises_not_a_slot_event"] = cn.get("function_raises_not_a_slot_event", 0) + 1
                continue
            if len(r.out) != len(idx) or r.canary:
                out["violations"].append({"kind": "length", "detail": {"fn": fn, "len": len(r.out), "canary": r.canary, "expected": len(idx), "backend": be}})
                continue
            for n, val in exp.items():
                if isinstance(val, Exception):
                    continue
                jv = C.judge(r.out[idx[n]], val)
                if jv == "skip":
                    continue
                compared += 1
                if jv != "ok":
                    where = [q for q, v2 in exp.items() if not isinstance(v2, Exception) and C.judge(r.out[idx[n]], v2) == "ok"]
                    out["violations"].append({"kind": "wrong_slot_or_value", "detail": {"fn": fn, "name": n, "slot": idx[n], "got": r.out[idx[n]], "expected": float(val.v), "value_belongs_to": where[:3], "backend": be}})
                    break
        cn["slots_compared"] = compared
        # a wrong value is a slot event only if the expression itself is computed correctly: C evaluates
        # integer literal arithmetic in int (C02's subject); with every literal typed double the same slots must then agree
        wrong = [v for v in out["violations"] if v["kind"] == "wrong_slot_or_value"]
        if be == "c" and wrong and len(wrong) == len(out["violations"]):
            from .c02 import int_to_double

            alt = int_to_double(oc.value)
            if alt != oc.value:
                m2 = B.open_module(be, alt, ref)
                try:
                    if not m2.compile_errors and m2.build(which=("asan",)):
                        rs2 = {c[0]: r for c, r in zip(calls, m2.run(calls))}
                        ok = True
                        for v in wrong:
                            fn, n = v["detail"]["fn"], v["detail"]["name"]
                            exp, idx = (expected_mon, maps["monitor"]) if fn == "monitor_values" else (expected_state[fn], maps["state"])
                            r2 = rs2.get(fn)
                            if r2 is None or r2.exc is not None or C.judge(r2.out[idx[n]], exp[n]) != "ok":
                                ok = False
                        if ok:
                            out["violations"] = []
                            out.update(status="skipped", reason="expression-level value defect of C integer arithmetic (C02), slots agree once literals are typed double")
                            return out
                finally:
                    m2.close()
        # 5. argument orders
        if spec.get("orders"):
            if be == "c":
                check_c_orders(ode, ref, pt, res, expected_state, expected_mon, out, cn, maps["state"], maps["parameter"], maps["monitor"], full=spec["klass"] == "prefix_names" or spec.get("tier") == "thorough")
            else:
                check_py_orders(ode, ref, be, pt, res, expected_state, expected_mon, out, cn, raises_by_default=raised)
        cn.setdefault("by_backend", {})[be] = compared
        out["nontrivial"] = compared >= 4
    finally:
        m.close()
    if out["violations"]:
        out["status"] = "violated"
    for v in out["violations"]:
        F.classify(ID, v, text=text, ode=ode, ref=ref)
    out["model_text"] = text if out["violations"] else None
    if spec["i"] % 7 == 0:
        out["sample"] = {"klass": spec["klass"], "backend": be, "model_text": text[:600], "counters": {k: v for k, v in cn.items()}, "status": out["status"]}
    return out


def summarise(records, tier, seed):
    ag = C.aggregate(records)
    cn = ag["counters"]
    cov = {
        "evaluations": ag["evaluations"],
        "distinct_nontrivial": len(ag["hashes"]),
        "rule": "prefix-name model + random multi-component DAG models x backend {numpy, jax, C(ASan, exact-size buffers, canaries)}; sample point chosen so that all derivative / monitored values are pairwise "
        "distinct; evaluation = one generated call; non-trivial = >= 4 slots located through the module's own index functions and compared by name; distinct by (hash, backend)",
        "samples": C.pick_samples(records),
        "per_class_cases": ag["classes"],
        "status": ag["status"],
        "slots_compared": cn.get("slots_compared", 0),
        "index_entries_checked": cn.get("index_entries", 0),
        "unknown_name_probes": cn.get("unknown_name_probes", 0),
        "argument_orders_executed": cn.get("orders_executed", 0),
        "by_backend": cn.get("by_backend", {}),
    }
    verdict = {}
    if len(ag["hashes"]) < (20 if tier == "quick" else 200):
        verdict["inconclusive"] = f"only {len(ag['hashes'])} distinct non-trivial cases"
    if not cn.get("orders_executed"):
        verdict["inconclusive"] = "no argument-order variant was executed"
    return cov, C.BASE_ASSUMPTIONS + ["argument orders are generated through CodeGenerator.rhs/monitor_values/scheme(order=...)"], verdict
