"""C01 - generated NumPy rhs computes exactly the derivatives the model text defines."""
from __future__ import annotations

import os

import numpy as np

from ..core import env
from ..exec.pyexec import PyModule
from ..gen import classes, models, points
from ..gen.exprs import Profile
from ..refmodel import evalref as E
from ..refmodel.model import RefModel
from . import common as C
from . import findings as F

ID = "C01"
LEVEL = "exploration"
BUDGET = {"quick": 55, "thorough": 480}
PACK = 16


def plan(tier, seed):
    specs = []
    for k, chunk in enumerate(classes.chunks(classes.paren_matrix(), PACK)):
        specs.append({"klass": "paren", "i": k, "exprs": chunk, "form": "direct" if k % 2 == 0 else "inter"})
    for k, chunk in enumerate(classes.chunks(classes.function_table(), PACK)):
        specs.append({"klass": "func", "i": k, "exprs": chunk, "form": "direct" if k % 3 else "inter"})
    for k, chunk in enumerate(classes.chunks(classes.conditional_table(), PACK)):
        specs.append({"klass": "cond", "i": k, "exprs": chunk, "form": "direct"})
    for k, chunk in enumerate(classes.chunks(classes.literal_table(), PACK)):
        specs.append({"klass": "lit", "i": k, "exprs": chunk, "form": "direct"})
    for k, chunk in enumerate(classes.chunks(classes.conditional_table(), PACK)):
        # the same conditionals over identifiers that contain tokens of the generated languages (true, false, pow, fabs)
        specs.append({"klass": "cond_names", "i": k, "exprs": chunk, "form": "direct" if k % 2 else "inter", "rename": classes.RENAME_TOKENS})
    shapes = [("chain", 6), ("chain", 25), ("chain", 60), ("diamond", 8), ("diamond", 20), ("unused", 12), ("fan", 12), ("random", 20)]
    for k, (sh, n) in enumerate(shapes):
        specs.append({"klass": "shape", "i": k, "shape": sh, "n_inter": n})
    for k, f in enumerate(classes.corpus(env.REPO, big=(tier == "thorough"))):
        specs.append({"klass": "corpus", "i": k, "file": os.path.relpath(f, env.REPO), "soft_timeout": 400})
    from . import c12

    for k, h in enumerate(c12.HAND):
        # removal of unused definitions changes the order in which the derivatives are emitted
        specs.append({"klass": "remove_unused_order", "i": k, "text": h, "remove_unused": True})
    n = 1500 if tier == "quick" else 8000
    for k in range(n):
        specs.append({"klass": "random", "i": k, "fill": True, "remove_unused": k % 4 == 3})
    for s in specs:
        s["prop"] = ID
    return specs


def case_text(spec, rng):
    if spec.get("text"):
        return spec["text"]
    k = spec["klass"]
    if k in ("paren", "func", "cond", "lit", "cond_names"):
        if spec.get("form") == "inter":
            return classes.rename(classes.packed_model_intermediates(spec["exprs"]), spec.get("rename"))
        return classes.rename(classes.packed_model(spec["exprs"]), spec.get("rename"))
    if k == "shape" or spec.get("shape"):
        sp = models.gen_model(rng, Profile(), shape=spec["shape"], n_inter=spec["n_inter"], n_states=rng.choice([2, 3, 4]), depth=2)
        return sp.render(rng)
    if k == "corpus":
        return open(os.path.join(env.REPO, spec["file"])).read()
    depth = 3 if spec.get("tier") == "quick" else rng.choice([2, 3, 4, 5])
    sp = models.gen_model(rng, Profile(), depth=depth)
    return sp.render(rng)


def single_text(spec, e):
    return classes.rename(classes.packed_model([e]), spec.get("rename"))


def check_model(text, rng, want=8, tier="quick", remove_unused=False):
    """The monitor proper.  -> dict(status, violations, counters, ...)"""
    out = {"violations": [], "counters": {}, "evaluations": 0, "nontrivial": False, "status": "held"}
    cn = out["counters"]
    try:
        ref = RefModel.from_text(text)
    except E.Unsupported as exc:
        out.update(status="skipped", reason=f"reference_unsupported: {exc}")
        return out
    ill = ref.ill_formed()
    if ill:
        out.update(status="inconclusive", reason=f"generator produced an ill-formed model {ill}")
        return out
    lo = C.load_text(text)
    if not lo.ok:
        out.update(status="skipped", reason="rejected_by_loader: " + lo.describe())
        cn["rejected_by_loader"] = 1
        out["loader_exc"] = lo.describe()
        out["site"] = C.trace_site(lo.exc)
        return out
    ode = lo.value
    co = C.py_code(ode, remove_unused=remove_unused)
    if not co.ok:
        out["status"] = "violated"
        v = {"kind": "codegen_raises", "detail": {"exc": co.describe(), "site": C.trace_site(co.exc, 4)}}
        out["violations"].append(v)
        out["_ctx"] = {"ode": ode, "ref": ref}
        return out
    cn["codegen_s"] = round(co.wall, 3)
    try:
        mod = PyModule(co.value)
    except Exception as exc:
        out["status"] = "violated"
        out["violations"].append({"kind": "exec_fails", "detail": {"exc": f"{type(exc).__name__}: {exc}"[:300]}})
        return out
    out["code"] = co.value
    pts, st = points.sample(ref, rng, want=want, max_draws=60 if tier == "quick" else 160)
    cn["points"] = st
    if len(pts) < 2:
        out.update(status="skipped", reason="too few decidable points")
        return out
    sidx = mod.names("state")
    if set(sidx) != set(ref.states):
        out["status"] = "violated"
        out["violations"].append({"kind": "state_names", "detail": {"module": sorted(sidx), "model": sorted(ref.states)}})
        return out
    compared = bad = skipped = 0
    sigs = set()
    first = None
    for pt, res, dec in pts:
        rec = mod.call("rhs", pt)
        out["evaluations"] += 1
        if rec.exc is not None:
            if any(isinstance(res[dn], (E.Undefined, E.Unsupported)) for dn in ref.derivs.values()):
                cn["raised_at_undefined_point"] = cn.get("raised_at_undefined_point", 0) + 1
                out["raised_anywhere"] = True
                continue
            out["violations"].append({"kind": "rhs_raises", "detail": {"exc": f"{type(rec.exc).__name__}: {rec.exc}"[:300], "point": pt}})
            break
        if rec.out.shape != (len(ref.states),):
            out["violations"].append({"kind": "shape", "detail": {"shape": list(rec.out.shape), "n_states": len(ref.states)}})
            break
        if rec.mutated:
            out["violations"].append({"kind": "inputs_mutated", "detail": {"point": pt}})
        sigs.add(dec)
        for s, dn in ref.derivs.items():
            got = float(rec.out[sidx[s]])
            j = C.judge(got, res[dn])
            if j == "skip":
                skipped += 1
                continue
            compared += 1
            if j == "ok":
                continue
            if C.triage(ref, pt, dn, got) == "fragile":
                cn["fragile_points"] = cn.get("fragile_points", 0) + 1
                continue
            bad += 1
            if first is None or first["name"] != dn:
                detail = {
                    "name": dn,
                    "expr": ref.assigns[dn].rhs[:300],
                    "point": {k: pt[k] for k in sorted(pt) if k in ref.deps[dn] or k == "t" or len(pt) < 12},
                    "got": got,
                    "expected": float(res[dn].v),
                    "diff": j[1],
                    "tol": j[2],
                    "symbolic_stage": C.sympy_stage(ode, dn, pt),
                }
                detail["root_cause"] = localise(mod, ref, pt, res, dn)
                v = {"kind": "value", "detail": detail, "_point": dict(pt)}
                if first is None or len(out["violations"]) < 6:
                    out["violations"].append(v)
                first = detail
    out["_ctx"] = {"ode": ode, "ref": ref, "pts": pts, "sidx": sidx}
    cn["compared"] = compared
    cn["skipped_points"] = skipped
    cn["disagreements"] = bad
    cn["branch_signatures"] = len(sigs)
    if out["violations"]:
        out["status"] = "violated"
    out["nontrivial"] = compared >= 2
    return out


def localise(mod, ref, pt, res, name):
    """Deepest name in the dependency closure of `name` whose monitored value already disagrees."""
    try:
        rec = mod.call("monitor_values", pt)
        if rec.exc is not None:
            return {"monitor_raises": str(rec.exc)[:200]}
        midx = mod.names("monitor")
        clo = F.closure_names(ref, name)
        bad = []
        for n in clo:
            if n in midx and C.judge(float(rec.out[midx[n]]), res[n]) not in ("ok", "skip"):
                bad.append(n)
        # a root cause is a bad name none of whose dependencies is bad
        for n in bad:
            if not any(d in bad for d in ref.deps[n]):
                return {"name": n, "expr": ref.assigns[n].rhs[:400], "got": float(rec.out[midx[n]]), "expected": float(res[n].v),
                        "inputs": {d: (pt[d] if d in pt else (float(res[d].v) if d in res and not isinstance(res[d], Exception) else None)) for d in sorted(ref.deps[n])}}
    except Exception as exc:
        return {"localise_error": str(exc)[:200]}
    return None


def recheck_fn(cx):
    """-> callable(module) -> bool: no raise and no disagreement at the case's decidable points."""
    if not cx.get("pts"):
        return None
    ref, pts = cx["ref"], cx["pts"]

    def fn(mod):
        sidx = mod.names("state")
        for pt, res, dec in pts:
            rec = mod.call("rhs", pt)
            if rec.exc is not None:
                if any(isinstance(res[dn], (E.Undefined, E.Unsupported)) for dn in ref.derivs.values()):
                    continue
                return False
            for s_, dn in ref.derivs.items():
                j = C.judge(float(rec.out[sidx[s_]]), res[dn])
                if j not in ("ok", "skip"):
                    return False
        return True

    return fn


def run_case(spec, ctx):
    rng = C.rng_for(spec)
    text = case_text(spec, rng)
    tier = spec.get("tier", "quick")
    want = 8 if tier == "quick" else 20
    out = check_model(text, rng, want=want, tier=tier, remove_unused=bool(spec.get("remove_unused")))
    # a packed model that cannot be generated: find the guilty expressions one at a time
    if spec.get("exprs") and not spec.get("text") and (out.get("raised_anywhere") or any(v["kind"] in ("codegen_raises", "rhs_raises", "exec_fails") for v in out["violations"])):
        vs = []
        ok_compared = 0
        for e in spec["exprs"]:
            sub = check_model(single_text(spec, e), C.rng_for(spec, e), want=want, tier=tier)
            out["evaluations"] += sub.get("evaluations", 0)
            ok_compared += sub["counters"].get("compared", 0)
            scx = sub.pop("_ctx", None) or {}
            for v in sub["violations"]:
                v["detail"]["expression"] = e
                v["text"] = single_text(spec, e)
                v["_cls"] = {"code": sub.get("code"), "ode": scx.get("ode"), "ref": scx.get("ref"), "recheck": recheck_fn(scx)}
                vs.append(v)
        out["violations"] = vs
        out["counters"]["compared"] = ok_compared
        out["nontrivial"] = ok_compared >= 2
        out["status"] = "violated" if vs else "held"
    feats = models.features(text)
    cx = out.pop("_ctx", None) or {}
    for v in out["violations"]:
        if v.get("text"):
            F.classify(ID, v, text=v["text"], features=feats, **v.pop("_cls", {}))
        else:
            F.classify(ID, v, text=text, features=feats, code=out.get("code"), ode=cx.get("ode"), ref=cx.get("ref"), recheck=recheck_fn(cx))
        v.pop("_point", None)
    out["hash"] = models.structural_hash(text)
    out["model_text"] = text if (out["violations"] or spec["klass"] != "corpus") else None
    out["counters"]["constructs"] = {**{"f:" + k: v for k, v in feats["funcs"].items()}, **{"op:" + k: v for k, v in feats["ops"].items()}, **feats["bool_arity"]}
    out["counters"]["dag_depth_max"] = 0
    out["dag_depth"] = feats.get("dag_depth", 0)
    if out["status"] in ("held", "violated") and spec["i"] % 7 == 0:
        out["sample"] = {"klass": spec["klass"], "model_text": text[:1500], "compared": out["counters"].get("compared"), "points": out["counters"].get("points"), "status": out["status"]}
    out.pop("code", None)
    if out["status"] != "violated":
        out.pop("model_text", None)
    return out


def summarise(records, tier, seed):
    ag = C.aggregate(records)
    cn = ag["counters"]
    rejected = sum(1 for r in records if (r.get("reason") or "").startswith("rejected_by_loader"))
    cov = {
        "evaluations": ag["evaluations"],
        "distinct_nontrivial": len(ag["hashes"]),
        "rule": "cases: enumerated parenthesisation/function/conditional/literal tables packed 16 per model, graph shapes, repository corpus, "
        "seeded random models; evaluation = one rhs() call at a sampled point; non-trivial = >= 2 derivative values compared with the "
        "reference at decidable points; distinct by alpha-renamed structural hash of the model text",
        "samples": C.pick_samples(records),
        "per_class_cases": ag["classes"],
        "status": ag["status"],
        "derivative_values_compared": cn.get("compared", 0),
        "points_skipped_undefined_undecidable_illconditioned": cn.get("skipped_points", 0),
        "fragile_points_reclassified": cn.get("fragile_points", 0),
        "disagreements": cn.get("disagreements", 0),
        "branch_signatures_seen": cn.get("branch_signatures", 0),
        "constructs_seen": cn.get("constructs", {}),
        "max_dag_depth": max([r.get("dag_depth", 0) or 0 for r in records] or [0]),
        "rejected_by_loader": rejected,
        "sampler": cn.get("points", {}),
    }
    verdict = {}
    need = 40 if tier == "quick" else 400
    if len(ag["hashes"]) < need:
        verdict["inconclusive"] = f"only {len(ag['hashes'])} distinct non-trivial models (< {need})"
    nrand = sum(1 for r in records if r.get("klass") == "random")
    if nrand and rejected > 0.05 * len(records):
        verdict["inconclusive"] = f"{rejected} of {len(records)} generated models rejected by the loader"
    return cov, C.BASE_ASSUMPTIONS + ["t and dt are passed as numpy.float64 (documented usage)"], verdict
