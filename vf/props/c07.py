"""C07 - hybrid Rush-Larsen = RL update on exactly the stiff states, Euler on the rest."""
from __future__ import annotations

import itertools

from ..exec import backends as B
from ..gen import grlmodels, models, points
from ..refmodel import evalref as E
from ..refmodel import schemes as S
from ..refmodel.model import RefModel
from . import common as C
from . import findings as F

ID = "C07"
LEVEL = "exploration"
BUDGET = {"quick": 70, "thorough": 540}
DTS = [0.05, 0.5, 1e-3, 0.0]
SCH = ["explicit_euler", "generalized_rush_larsen", "hybrid_rush_larsen"]


def plan(tier, seed):
    specs = []
    n = 150 if tier == "quick" else 2500
    for k in range(n):
        be = ("numpy", "numpy", "c", "jax")[k % 4]
        specs.append({"klass": "subsets", "i": k, "backend": be, "delta": (1e-8, 1e-3, 0.5)[(k // 4) % 3], "fill": k >= 16, "shapes": ["linear_k", "affine"] if k % 3 == 0 else None})
    for k in range(4 if tier == "quick" else 20):
        specs.append({"klass": "alias_direct", "i": k, "backend": "numpy", "delta": 1e-8})
    from . import c12

    for k, h in enumerate(c12.HAND[:2]):
        for be in ("numpy", "c", "jax"):
            # unused definitions removed from the code (one of the texts changes the order of the derivatives)
            specs.append({"klass": "remove_unused", "i": 3000 + 3 * k + ("numpy", "c", "jax").index(be), "backend": be, "delta": 1e-8, "text": h, "remove_unused": True})
    for k in range(6 if tier == "quick" else 40):
        specs.append({"klass": "remove_unused", "i": 3100 + k, "backend": ("numpy", "c", "jax")[k % 3], "delta": (1e-8, 1e-3)[k % 2], "remove_unused": True, "append_unused": True})
    for k in range(6 if tier == "quick" else 40):
        # one code generator object asked for the scheme several times with different stiff sets / deltas
        specs.append({"klass": "generator_reuse", "i": 3200 + k, "backend": "numpy", "delta": 1e-8})
    for s in specs:
        s["prop"] = ID
        s.setdefault("soft_timeout", 200)
    return specs


def stiff_sets(rng, ref, backend, tier):
    st = sorted(ref.states)
    n = len(st)
    if n <= 3 and backend == "numpy":
        subsets = [list(c) for r in range(n + 1) for c in itertools.combinations(st, r)]
    else:
        subsets = [[], list(st)] + [sorted(rng.sample(st, rng.randint(1, max(1, n - 1)))) for _ in range(2 if backend != "numpy" else 5)]
    out = [(s, s) for s in subsets]
    # foreign names and duplicates must have no effect
    par = sorted(ref.params)
    inter = [a for a in ref.intermediates]
    base = sorted(rng.sample(st, max(1, n // 2)))
    # near misses of a state that is *not* in the set (so that resolving one of them to the state would be visible):
    # other case, surrounding blanks, a prefix, an extension, the name of its derivative
    rest = [s for s in st if s not in base]
    tgt = rest[0] if rest else st[0]
    foreign = [par[0] if par else "zz", inter[0] if inter else "ww", ref.derivs[tgt], "not_a_name", tgt[:-1] or "q", tgt + "x",
               tgt.upper(), tgt.lower(), tgt.capitalize(), tgt.swapcase(), " " + tgt, tgt + " ", tgt + "_", "d" + tgt]
    foreign = list(dict.fromkeys(f for f in foreign if f not in st))
    out.append((base + foreign, base))
    out.append((base + base, base))
    return out


def direct_alias_module(ode, alias, stiff, delta):
    from gotranx.codegen.python import Format, PythonCodeGenerator
    from gotranx.schemes import get_scheme

    cg = PythonCodeGenerator(ode, format=Format.none)
    f = get_scheme(alias)
    parts = [cg.imports(), cg.parameter_index(), cg.state_index(), cg.monitor_index(), cg.rhs(), cg.scheme(get_scheme("explicit_euler")), cg.scheme(get_scheme("generalized_rush_larsen"), delta=delta)]
    f = get_scheme(alias)
    parts.append(cg.scheme(f, delta=delta, stiff_states=stiff))
    return "\n".join(parts), f.__code__.co_name


class ReusedGenerator:
    """One PythonCodeGenerator for the whole case: the fixed parts are generated once, the hybrid scheme is requested
    again for every stiff set (and once in between with another delta, whose result is discarded)."""

    def __init__(self, ode, delta):
        from gotranx.codegen.python import Format, PythonCodeGenerator
        from gotranx.schemes import get_scheme

        self.get_scheme, self.delta = get_scheme, delta
        self.cg = cg = PythonCodeGenerator(ode, format=Format.none)
        self.fixed = [cg.imports(), cg.parameter_index(), cg.state_index(), cg.monitor_index(), cg.rhs(), cg.scheme(get_scheme("explicit_euler")), cg.scheme(get_scheme("generalized_rush_larsen"), delta=delta)]

    def module(self, stiff):
        f = self.get_scheme("hybrid_rush_larsen")
        self.cg.scheme(f, delta=0.75, stiff_states=[])  # another request on the same generator
        return "\n".join(self.fixed + [self.cg.scheme(self.get_scheme("hybrid_rush_larsen"), delta=self.delta, stiff_states=list(stiff))])


def run_case(spec, ctx):
    rng = C.rng_for(spec)
    out = {"violations": [], "counters": {}, "evaluations": 0, "nontrivial": False, "status": "held"}
    cn = out["counters"]
    be, delta = spec["backend"], spec["delta"]
    text = spec.get("text") or grlmodels.gen_grl_model(rng, n_states=rng.choice([2, 3, 3, 4]), shapes=spec.get("shapes"))[0]
    if spec.get("append_unused"):
        text = text.replace("parameters(k=-0.5, tau=2.0, b=0.75)", "parameters(k=-0.5, tau=2.0, b=0.75, unused_p=1.5)") + "unused_a = x0 * 3 + unused_p\nunused_b = w * k\n"
    out["hash"] = models.structural_hash(text) + f":{be}" + (":ru" if spec.get("remove_unused") else "") + (":reuse" if spec["klass"] == "generator_reuse" else "")
    ref = RefModel.from_text(text)
    if ref.ill_formed():
        out.update(status="inconclusive", reason="generator produced an ill-formed model")
        return out
    lo = C.load_text(text)
    if not lo.ok:
        out.update(status="skipped", reason="rejected_by_loader: " + lo.describe())
        return out
    ode = lo.value
    ru = {"remove_unused": True} if spec.get("remove_unused") else {}
    if not B.generate(be, ode, schemes=["explicit_euler", "generalized_rush_larsen"], delta=delta, **ru).ok:
        out.update(status="skipped", reason="module cannot be generated with Euler+GRL alone (C01-C06)")
        return out
    pts, st = points.sample(ref, rng, want=4 if spec.get("tier") == "quick" else 8, max_draws=30)
    cn["points"] = st
    if len(pts) < 2:
        out.update(status="skipped", reason="too few decidable points")
        return out
    # place the linear coefficient k on both sides of the guard |g| > delta (g = k for the linear shapes)
    if "k" in ref.params:
        extra = []
        for pt, res, dec in pts[:2]:
            for kv in (delta / 2, -delta / 2, delta * (1 + 1e-3), -delta * (1 + 1e-3), 1e-6 if delta > 1e-6 else 1.0):
                p2 = dict(pt, k=kv)
                r2, d2 = ref.evaluate(p2)
                extra.append((p2, r2, d2))
        pts = pts + extra
    visible = False
    compared = 0
    sets_done = 0
    aliases = ["hybrid_rush_larsen"] if spec["klass"] != "alias_direct" else ["rush_larsen", "forward_rush_larsen", "hybrid_rush_larsen"]
    reuse = ReusedGenerator(ode, delta) if spec["klass"] == "generator_reuse" else None
    for given, effective in stiff_sets(rng, ref, be, spec.get("tier")):
        for alias in aliases:
            if spec["klass"] == "alias_direct":
                oc = C.call(direct_alias_module, ode, alias, given, delta)
                if oc.ok and (oc.value[1] != alias or f"def {alias}(" not in oc.value[0]):
                    out["violations"].append({"kind": "function_not_named_by_alias", "detail": {"alias": alias, "co_name": oc.value[1]}})
                    continue
                code = oc.value[0] if oc.ok else None
            elif spec["klass"] == "generator_reuse":
                oc = C.call(reuse.module, given)
                code = oc.value if oc.ok else None
            else:
                oc = B.generate(be, ode, schemes=SCH, delta=delta, stiff_states=given, **ru)
                code = oc.value
            if not oc.ok:
                out["violations"].append({"kind": "generation_raises", "detail": {"exc": oc.describe(), "stiff": given, "backend": be}})
                continue
            try:
                m = B.open_module(be, code, ref)
            except Exception as exc:
                out["violations"].append({"kind": "exec_fails", "detail": {"exc": f"{type(exc).__name__}: {exc}"[:300], "backend": be}})
                continue
            try:
                if be == "c":
                    if m.compile_errors:
                        # charged to C07 only if the same model compiles without the hybrid scheme (otherwise it is C02's event)
                        b0 = B.generate(be, ode, schemes=["explicit_euler", "generalized_rush_larsen"], delta=delta, **ru)
                        m0 = B.open_module(be, b0.value, ref) if b0.ok else None
                        base_bad = m0 is None or bool(m0.compile_errors)
                        if m0 is not None:
                            m0.close()
                        if base_bad:
                            cn["compile_errors_shared_with_the_module_without_hybrid"] = cn.get("compile_errors_shared_with_the_module_without_hybrid", 0) + 1
                            continue
                        out["violations"].append({"kind": "compile_error", "detail": {"errors": m.compile_errors[0][1][:3], "stiff": given}})
                        continue
                    if not m.build(which=("asan",)):
                        out.update(status="inconclusive", reason="driver build failed")
                        return out
                sidx = m.maps(ref)["state"]
                calls, meta = [], []
                for j, (pt, res, dec) in enumerate(pts):
                    dt = DTS[j % len(DTS)]
                    for fn in ("explicit_euler", "generalized_rush_larsen", alias):
                        calls.append((fn, pt, dt, None))
                        meta.append((fn, j, dt))
                rs = m.run(calls)
                sets_done += 1
                for k in range(0, len(rs), 3):
                    eu, gr, hy = rs[k], rs[k + 1], rs[k + 2]
                    _, j, dt = meta[k]
                    pt, res, dec = pts[j]
                    out["evaluations"] += 3
                    if hy.exc is not None:
                        if eu.exc is None and gr.exc is None:
                            out["violations"].append({"kind": "raises", "detail": {"exc": hy.exc, "stiff": given, "backend": be}})
                        continue
                    if eu.exc is not None or gr.exc is not None:
                        continue
                    for s, i in sidx.items():
                        want = gr.out[i] if s in effective else eu.out[i]
                        other = eu.out[i] if s in effective else gr.out[i]
                        try:
                            val, br = S.expected_update(ref, pt, res, s, dt, "grl" if s in effective else "euler", delta)
                            tol = 2 * float(E.tolerance(val))
                            if not E.well_conditioned(val):
                                continue
                        except (E.Undefined, E.Undecidable, E.Unsupported):
                            continue
                        compared += 1
                        if abs(gr.out[i] - eu.out[i]) > 1e-6 * max(abs(gr.out[i]), abs(eu.out[i]), 1e-300):
                            visible = True
                        same_nonfinite = (hy.out[i] == want) or (hy.out[i] != hy.out[i] and want != want)
                        if not same_nonfinite and not (abs(hy.out[i] - want) <= tol):
                            if len(out["violations"]) < 6:
                                out["violations"].append({"kind": "wrong_update", "detail": {
                                    "state": s, "stiff_given": given, "is_stiff": s in effective, "hybrid": hy.out[i], "own_grl": gr.out[i], "own_euler": eu.out[i], "tol": tol, "dt": dt,
                                    "matches_other": abs(hy.out[i] - other) <= tol, "backend": be, "alias": alias}})
            finally:
                m.close()
    cn["compared"] = compared
    cn["stiff_sets_generated"] = sets_done
    cn.setdefault("by_backend", {})[be] = compared
    out["nontrivial"] = compared >= 4 and visible
    if out["violations"]:
        out["status"] = "violated"
    for v in out["violations"]:
        F.classify(ID, v, text=text, ode=ode, ref=ref)
    out["model_text"] = text if out["violations"] else None
    if spec["i"] % 9 == 0:
        out["sample"] = {"klass": spec["klass"], "backend": be, "model_text": text[:600], "stiff_sets": sets_done, "compared": compared, "status": out["status"]}
    return out


def summarise(records, tier, seed):
    ag = C.aggregate(records)
    cn = ag["counters"]
    cov = {
        "evaluations": ag["evaluations"],
        "distinct_nontrivial": len(ag["hashes"]),
        "rule": "rate-shape models x stiff-state sets (all subsets for n <= 3 on numpy; {}, all, random subsets, foreign names incl. near misses of a state outside the set - other case, blanks, prefix, extension -, duplicates elsewhere) x backend; evaluation = one generated call; "
        "non-trivial = >= 4 slots of hybrid compared with the same module's generalized_rush_larsen / explicit_euler and RL visibly differs from Euler for some state; distinct by (hash, backend)",
        "samples": C.pick_samples(records),
        "per_class_cases": ag["classes"],
        "status": ag["status"],
        "slots_compared": cn.get("compared", 0),
        "stiff_sets_generated": cn.get("stiff_sets_generated", 0),
        "by_backend": cn.get("by_backend", {}),
    }
    verdict = {}
    if len(ag["hashes"]) < (20 if tier == "quick" else 200):
        verdict["inconclusive"] = f"only {len(ag['hashes'])} distinct non-trivial cases"
    return cov, C.BASE_ASSUMPTIONS + ["slots are compared with the same module's generalized_rush_larsen / explicit_euler outputs within twice the reference tolerance at decidable points"], verdict
