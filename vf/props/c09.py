"""C09 - generated code and slot layout are reproducible across processes (hash seeds, histories)."""
from __future__ import annotations

import json
import os
import subprocess

from ..core import env
from ..gen import classes, models
from ..gen.exprs import Profile
from ..refmodel.model import RefModel
from . import common as C
from . import findings as F

ID = "C09"
LEVEL = "exploration"
BUDGET = {"quick": 75, "thorough": 600}
PY = "/venv/bin/python"

WIDE = """parameters(a=1.5, b=0.5, c=2.0)
states(x0=0.5, x1=1.5, x2=-0.5, x3=2.5, x4=0.25, x5=1.25)

i0 = a * x0 + b
i1 = b * x1 + c
i2 = c * x2 + a
i3 = a + b + c
dx0_dt = i0 - x0 + i3
dx1_dt = i1 - x1 + i3
dx2_dt = i2 - x2 + i3
dx3_dt = i0 + i1 - x3
dx4_dt = i1 + i2 - x4
dx5_dt = i0 + i2 + i3 - x5
"""


TWINS = """states("membrane", V=-80.0, v=0.5, Ca=1.0, ca=2.0)
parameters("membrane", K_o=5.4, k_o=0.1, g=0.3)
states("gate", m=0.1, h=0.9, M=0.2)
parameters("gate", tau=2.0, Tau=3.0)
expressions("membrane")
i_K = g * (V - v) * m * h + M
I_K = K_o * k_o * M
dV_dt = -i_K
dv_dt = Ca - v + I_K
dCa_dt = -Ca * ca + K_o
dca_dt = k_o - ca * m
expressions("gate")
minf = 1 / (1 + exp(-(V + 40) / 6.8)) + v * 0.01 + Ca * ca * 0.001 + K_o * k_o
Minf = i_K * 0.01 + I_K
dm_dt = (minf - m) / tau
dh_dt = -h * ca + Ca * 0.1
dM_dt = (Minf - M) / Tau
"""


def plan(tier, seed):
    specs = [{"klass": "wide_ties", "i": 0}]
    for k, sub in enumerate(["gate", "-gate", "membrane", "-membrane"]):
        # sub-models whose missing variables differ only in case (V / v, Ca / ca, K_o / k_o, i_K / I_K, m / M): the layout of the
        # missing-variables array must not depend on the hash seed either
        specs.append({"klass": "sub_model_with_case_twins", "i": 700 + k, "sub": sub})
    for k, f in enumerate(classes.corpus(env.REPO, big=True)):
        big = os.path.getsize(f) > 12000
        specs.append({"klass": "corpus", "i": k, "file": os.path.relpath(f, env.REPO), "soft_timeout": 900, "big": big})
    n = 26 if tier == "quick" else 160
    for k in range(n):
        specs.append({"klass": "random", "i": k, "fill": k >= 6})
    for k in range(10 if tier == "quick" else 40):
        specs.append({"klass": "history", "i": k})
    for s in specs:
        s["prop"] = ID
        s.setdefault("soft_timeout", 400)
    return specs


def fresh(job, hashseed, timeout=600):
    e = env.child_env(hashseed)
    e["VERIF_REPO"] = env.REPO
    p = subprocess.run([PY, "-m", "vf.exec.fresh"], input=json.dumps(job), capture_output=True, text=True, env=e, cwd=env.VERIF, timeout=timeout)
    for ln in p.stdout.splitlines():
        if ln.startswith("RESULT "):
            return json.loads(ln[7:])
    return {"fatal": (p.stderr or p.stdout)[-400:]}


def requests_for(big=False, jax=True):
    r = [{"key": "numpy", "backend": "numpy", "schemes": ["explicit_euler", "generalized_rush_larsen"], "repeat": True},
         {"key": "c", "backend": "c", "schemes": ["explicit_euler"]},
         {"key": "numpy_remove_unused", "backend": "numpy", "schemes": [], "remove_unused": True},
         {"key": "numpy_hybrid", "backend": "numpy", "schemes": ["hybrid_rush_larsen"], "stiff_first": 2, "repeat": True},
         {"key": "c_hybrid", "backend": "c", "schemes": ["hybrid_rush_larsen"], "stiff_first": 2}]
    if big:
        r = [{"key": "numpy", "backend": "numpy", "schemes": []}]
    elif jax:
        r.append({"key": "jax", "backend": "jax", "schemes": ["explicit_euler"]})
    return r


def variant_of(text, rng):
    """Same names, different dependency structure: the right-hand sides of two derivatives are swapped."""
    try:
        ref = RefModel.from_text(text)
    except Exception:
        return None
    ds = list(ref.derivs.values())
    if len(ds) < 2:
        return None
    a, b = rng.sample(ds, 2)
    lines = text.split("\n")
    ia = next((i for i, l in enumerate(lines) if l.startswith(a + " =")), None)
    ib = next((i for i, l in enumerate(lines) if l.startswith(b + " =")), None)
    if ia is None or ib is None:
        return None
    ra, rb = lines[ia].split("=", 1)[1], lines[ib].split("=", 1)[1]
    lines[ia], lines[ib] = f"{a} ={rb}", f"{b} ={ra}"
    v = "\n".join(lines)
    try:
        if RefModel.from_text(v).ill_formed():
            return None
    except Exception:
        return None
    return v


def random_history(rng, other_texts):
    ops = []
    for _ in range(rng.randint(1, 8)):
        k = rng.choice(["load_generate", "load_generate", "get_scheme", "get_scheme", "simplify", "remove_singularities"])
        if k == "get_scheme":
            ops.append({"op": k, "name": rng.choice(["explicit_euler", "forward_explicit_euler", "euler", "forward_euler", "generalized_rush_larsen", "forward_generalized_rush_larsen", "hybrid_rush_larsen", "rush_larsen", "forward_rush_larsen"])})
        else:
            ops.append({"op": k, "text": rng.choice(other_texts), "schemes": rng.choice([[], ["explicit_euler"], ["generalized_rush_larsen"], ["explicit_euler", "generalized_rush_larsen", "hybrid_rush_larsen"]]), "c": rng.random() < 0.3,
                        "shape": rng.choice([None, None, "single", "multiple"]), "remove_unused": rng.random() < 0.25, "jax": rng.random() < 0.2})
    return ops


def run_case(spec, ctx):
    rng = C.rng_for(spec)
    out = {"violations": [], "counters": {}, "evaluations": 0, "nontrivial": False, "status": "held"}
    cn = out["counters"]
    tier = spec.get("tier", "quick")
    if spec.get("text"):
        text = spec["text"]
    elif spec["klass"] == "wide_ties":
        text = WIDE
    elif spec["klass"] == "sub_model_with_case_twins":
        text = TWINS
    elif spec["klass"] == "corpus":
        text = open(os.path.join(env.REPO, spec["file"])).read()
    else:
        prof = Profile(mod=False, ccond=False, funcs=["exp", "sin", "cos", "sqrt", "abs"], int_literals=False)
        text = models.gen_model(rng, prof, depth=2, n_states=rng.choice([3, 4, 5, 6, 8]), n_inter=rng.choice([4, 8, 12, 20]), n_comp=rng.choice([1, 2, 3]), shape=rng.choice(["fan", "random", "diamond", "unused"])).render(rng)
    out["hash"] = models.structural_hash(text)
    big = bool(spec.get("big"))
    reqs = requests_for(big=big, jax=(spec["i"] % 3 == 0))
    if spec["klass"] == "history":
        others = [WIDE, open(os.path.join(env.REPO, "tests/odefiles/lorentz.ode")).read(), models.gen_model(rng, Profile(mod=False), depth=2).render(rng)]
        # edited versions of the requested model itself (same names, other dependencies): the realistic history of an edit-regenerate loop
        for _ in range(3):
            v = variant_of(text, rng)
            if v:
                others.append(v)
                others.append(v)
        # ... and the requested text itself, translated earlier with other options (shape, remove_unused, back end)
        others.append(text)
        others.append(text)
        base = fresh({"text": text, "requests": reqs}, 0)
        if "fatal" in base:
            out.update(status="skipped", reason="model cannot be generated in a fresh process: " + base["fatal"][-150:])
            return out
        n_hist = 3 if tier == "quick" else 8
        for h in range(n_hist):
            hist = random_history(rng, others)
            r = fresh({"text": text, "requests": reqs, "history": hist}, 0)
            out["evaluations"] += 1
            if "fatal" in r:
                out["violations"].append({"kind": "fails_after_history", "detail": {"history": [o["op"] + ":" + o.get("name", "") for o in hist], "err": r["fatal"][-200:]}})
                continue
            for key in base["sha"]:
                if r["sha"].get(key) != base["sha"][key] or r["errors"].get(key):
                    out["violations"].append({"kind": "output_depends_on_history", "subkind": key, "detail": {"request": key, "history": [o["op"] + ":" + o.get("name", "") for o in hist], "error": r["errors"].get(key)}})
            if r["sorted_states"] != base["sorted_states"]:
                out["violations"].append({"kind": "layout_depends_on_history", "detail": {"history": [o["op"] for o in hist]}})
        cn["histories"] = n_hist
        out["nontrivial"] = True
    else:
        if big:
            seeds = [0, 1, 2] if tier == "quick" else list(range(12))
        else:
            seeds = list(range(8)) if tier == "quick" else list(range(32)) + [rng.randrange(2**32) for _ in range(8)]
        results = {}
        for sd in seeds:
            r = fresh({"text": text, "requests": reqs, "sub": spec.get("sub")}, sd)
            out["evaluations"] += 1
            if "fatal" in r:
                if sd == seeds[0]:
                    out.update(status="skipped", reason="model cannot be generated in a fresh process: " + r["fatal"][-150:])
                    return out
                out["violations"].append({"kind": "fails_under_some_seed", "detail": {"seed": sd, "err": r["fatal"][-200:]}})
                continue
            results[sd] = r
        first = results[seeds[0]]
        vectors = {r["dependency_order_vector"] for r in results.values()}
        cn["seeds"] = len(results)
        cn["distinct_dependency_order_vectors"] = len(vectors)
        cn["distinct_component_orders"] = len({tuple(r["component_order"]) for r in results.values()})
        for key in first["sha"]:
            shas = {}
            for sd, r in results.items():
                shas.setdefault(r["sha"].get(key), []).append(sd)
            cn.setdefault("distinct_outputs", {})[key] = len(shas)
            if len(shas) > 1:
                grp = sorted(shas.values(), key=len, reverse=True)
                out["violations"].append({"kind": "bytes_differ_across_hash_seeds", "subkind": key, "detail": {"request": key, "distinct_outputs": len(shas), "seed_groups": [g[:4] for g in grp[:4]]}})
            for sd, r in results.items():
                if r["errors"].get(key):
                    out["violations"].append({"kind": "repetition_or_error", "subkind": key, "detail": {"request": key, "seed": sd, "error": r["errors"][key]}})
                    break
        layouts = {}
        for sd, r in results.items():
            layouts.setdefault(tuple(r["sorted_states"]), []).append(sd)
        if len(layouts) > 1:
            out["violations"].append({"kind": "state_layout_differs_across_hash_seeds", "detail": {"layouts": [list(k)[:8] for k in list(layouts)[:3]], "seed_groups": [v[:4] for v in layouts.values()][:3]}})
        orders = {tuple(r["sorted_assignments"]) for r in results.values()}
        cn["distinct_statement_orders"] = len(orders)
        out["nontrivial"] = len(results) >= 3 and (len(vectors) >= 2 or bool(spec.get("sub")))
        if spec.get("sub"):
            out["hash"] += ":" + spec["sub"]
            cn["missing_variables_of_sub_model"] = len(first.get("missing_variables") or [])
            miss = {tuple(map(tuple, r.get("missing_variables") or [])) for r in results.values()}
            if len(miss) > 1:
                out["violations"].append({"kind": "missing_variable_layout_differs_across_hash_seeds", "detail": {"layouts": [list(m_)[:8] for m_ in list(miss)[:3]]}})
    if out["violations"]:
        out["status"] = "violated"
    for v in out["violations"]:
        F.classify(ID, v, text=text)
    out["model_text"] = text if out["violations"] and len(text) < 5000 else (spec.get("file") if out["violations"] else None)
    out["sample"] = {"klass": spec["klass"], "file": spec.get("file"), "model_text": None if spec.get("file") else text[:400], "counters": cn, "status": out["status"]}
    return out


def summarise(records, tier, seed):
    ag = C.aggregate(records)
    cn = ag["counters"]
    cov = {
        "evaluations": ag["evaluations"],
        "distinct_nontrivial": len(ag["hashes"]),
        "rule": "wide tie-rich model, repository corpus (incl. the 45-52 state models), random DAG models; each generated in fresh interpreters under PYTHONHASHSEED in 0..7 (quick) / 0..31 + 8 random (thorough) "
        "for numpy(+schemes, repeated twice), C, numpy with remove_unused and jax; plus fresh interpreters that first execute a random history of other load/generate (other texts, edited versions and the requested text itself, with other shape / remove_unused / back-end options) / get_scheme / simplify / remove_singularities calls; plus sub-models (component.to_ode(), model - component) whose missing variables differ only in case; "
        "evaluation = one fresh process; non-trivial = >= 4 seeds and >= 2 distinct dependency-set iteration-order vectors actually observed; distinct by structural hash",
        "samples": C.pick_samples(records, 5),
        "per_class_cases": ag["classes"],
        "status": ag["status"],
        "fresh_processes": ag["evaluations"],
        "sum_over_models_of_distinct_dependency_order_vectors": cn.get("distinct_dependency_order_vectors", 0),
        "sum_over_models_of_distinct_statement_orders": cn.get("distinct_statement_orders", 0),
        "sum_over_models_of_distinct_outputs": cn.get("distinct_outputs", {}),
        "histories_run": cn.get("histories", 0),
    }
    verdict = {}
    if len(ag["hashes"]) < (12 if tier == "quick" else 80):
        verdict["inconclusive"] = f"only {len(ag['hashes'])} non-trivial models"
    return cov, ["a violation is two real processes with two real hash seeds (or a real history) and different bytes; finitely many seeds are tried"], verdict
