"""C03 - generated JAX code computes the same values, with full-size outputs, jitted and un-jitted."""
from __future__ import annotations

import os

import numpy as np

from ..core import env
from ..exec import backends as B
from ..gen import classes, models, points
from ..gen.exprs import Profile
from ..refmodel import evalref as E
from ..refmodel import schemes as S
from ..refmodel.model import RefModel
from . import c01
from . import common as C
from . import findings as F

ID = "C03"
LEVEL = "exploration"
BUDGET = {"quick": 70, "thorough": 540}
DELTA = 1e-8
SCHEMES = ["explicit_euler", "generalized_rush_larsen", "hybrid_rush_larsen"]

BOOL_TABLE = []
for k in (2, 3, 4, 5):
    ops = ["Gt(a, 1)", "Lt(b, 1)", "Ge(c, 2)", "Le(a, b)", "Gt(t, 0.25)"][:k]
    BOOL_TABLE += [f"Conditional(And({', '.join(ops)}), a, b)", f"Conditional(Or({', '.join(ops)}), a, b)", f"Conditional(Not(And({', '.join(ops)})), a, b)",
                   f"Conditional(Or(And({', '.join(ops)}), Eq(c, 2)), a, c) * 2", f"Conditional(And(Or({', '.join(ops)}), Gt(p, 0.25), Lt(k, 5)), a, c)"]


def plan(tier, seed):
    specs = []
    for k, chunk in enumerate(classes.chunks(BOOL_TABLE, 10)):
        specs.append({"klass": "bool", "i": k, "exprs": chunk, "form": "direct"})
    tabs = [("cond", classes.conditional_table()), ("func", classes.function_table()), ("paren", classes.paren_matrix()[::2])]
    for name, tab in tabs:
        for k, chunk in enumerate(classes.chunks(tab, 16)):
            if tier == "quick" and name != "cond" and k % 3:
                continue
            specs.append({"klass": name, "i": k, "exprs": chunk, "form": "direct" if k % 2 else "inter"})
    for k, chunk in enumerate(classes.chunks(classes.conditional_table(), 16)):
        if tier == "quick" and k % 2:
            continue
        specs.append({"klass": "cond_names", "i": k, "exprs": chunk, "form": "direct" if k % 2 else "inter", "rename": classes.RENAME_TOKENS})
    shapes = [("chain", 30), ("unused", 12), ("random", 25)]
    for k, (sh, n) in enumerate(shapes):
        specs.append({"klass": "shape", "i": k, "shape": sh, "n_inter": n})
    from . import c12

    for k, h in enumerate(c12.HAND):
        # full-size outputs also when unused definitions (and states nothing reads) are removed from the code
        specs.append({"klass": "remove_unused", "i": k, "text": h, "remove_unused": True})
    for k in range(6 if tier == "quick" else 60):
        specs.append({"klass": "remove_unused", "i": 10 + k, "shape": "unused", "n_inter": 10, "remove_unused": True})
    specs.append({"klass": "noparams", "i": 0, "n_params": 0})
    specs.append({"klass": "noparams", "i": 1, "n_params": 0})
    specs.append({"klass": "manymonitor", "i": 0})
    for k, f in enumerate(classes.corpus(env.REPO, big=(tier == "thorough"))):
        specs.append({"klass": "corpus", "i": k, "file": os.path.relpath(f, env.REPO), "soft_timeout": 500})
    n = 300 if tier == "quick" else 2500
    for k in range(n):
        specs.append({"klass": "random", "i": k, "fill": True})
    for s in specs:
        s["prop"] = ID
        s.setdefault("soft_timeout", 150)
    return specs


def case_text(spec, rng):
    if spec.get("text"):
        return spec["text"]
    if spec["klass"] == "noparams":
        return models.gen_model(rng, Profile(), n_params=0, depth=2).render(rng)
    if spec["klass"] == "manymonitor":
        return models.gen_model(rng, Profile(), n_states=2, n_inter=20, depth=2).render(rng)
    return c01.case_text(spec, rng)


def expected(ref, pt, res, fn, dt, stiff):
    if fn == "rhs":
        return {s: res[dn] for s, dn in ref.derivs.items()}, "state"
    if fn == "monitor_values":
        return dict(res), "monitor"
    out = {}
    for s in ref.derivs:
        kind = "euler" if fn == "explicit_euler" or (fn == "hybrid_rush_larsen" and s not in stiff) else "grl"
        try:
            out[s] = S.expected_update(ref, pt, res, s, dt, kind, DELTA)[0]
        except (E.Undefined, E.Undecidable, E.Unsupported) as exc:
            out[s] = exc
    return out, "state"


def check_model(text, rng, want=5, tier="quick", remove_unused=False):
    import jax

    out = {"violations": [], "counters": {}, "evaluations": 0, "nontrivial": False, "status": "held"}
    cn = out["counters"]
    try:
        ref = RefModel.from_text(text)
    except E.Unsupported as exc:
        out.update(status="skipped", reason=f"reference_unsupported: {exc}")
        return out
    if ref.ill_formed():
        out.update(status="inconclusive", reason="generator produced an ill-formed model")
        return out
    lo = C.load_text(text)
    if not lo.ok:
        out.update(status="skipped", reason="rejected_by_loader: " + lo.describe())
        return out
    ode = lo.value
    stiff = sorted(ref.states)[::2]
    fns = ["rhs", "monitor_values"] + SCHEMES
    ru = {"remove_unused": True} if remove_unused else {}
    co = B.generate("jax", ode, schemes=SCHEMES, delta=DELTA, stiff_states=stiff, **ru)
    if not co.ok:
        co2 = B.generate("jax", ode, schemes=["explicit_euler"], **ru)
        if not co2.ok:
            out["status"] = "violated"
            out["violations"].append({"kind": "codegen_raises", "detail": {"exc": co.describe(), "site": C.trace_site(co.exc, 4)}})
            out["_ode"], out["_ref"] = ode, ref
            return out
        cn["rl_generation_failed"] = 1
        co, fns = co2, ["rhs", "monitor_values", "explicit_euler"]
    out["code"] = co.value
    out["_ode"], out["_ref"] = ode, ref
    try:
        m = B.open_module("jax", co.value, ref)
    except Exception as exc:
        out["status"] = "violated"
        out["violations"].append({"kind": "exec_fails", "detail": {"exc": f"{type(exc).__name__}: {exc}"[:300]}})
        return out
    pts, st = points.sample(ref, rng, want=want, max_draws=40 if tier == "quick" else 100)
    cn["points"] = st
    if len(pts) < 2:
        out.update(status="skipped", reason="too few decidable points")
        return out
    maps = m.maps(ref)
    want_len = {"state": len(ref.states), "monitor": len(ref.assigns)}
    for kind, nm in (("state", set(ref.states)), ("parameter", set(ref.params)), ("monitor", set(ref.assigns))):
        if set(maps[kind]) != nm or sorted(maps[kind].values()) != list(range(len(nm))):
            out["violations"].append({"kind": "index_map", "detail": {"kind": kind}})
    # initial values: lengths and values
    for fn, names, idx in (("init_state_values", ref.states, maps["state"]), ("init_parameter_values", ref.params, maps["parameter"])):
        r = m.run([(fn, {}, None, None)])[0]
        out["evaluations"] += 1
        if r.exc:
            out["violations"].append({"kind": "init_raises", "subkind": fn, "detail": {"fn": fn, "exc": r.exc}})
            continue
        if r.shape != (len(names),):
            out["violations"].append({"kind": "length", "subkind": fn, "detail": {"fn": fn, "shape": list(r.shape), "expected": len(names)}})
            continue
        for n in names:
            try:
                val = ref.decl_value(n)
            except (E.Undefined, E.Undecidable, E.Unsupported):
                continue
            if C.judge(r.out[idx[n]], val) not in ("ok", "skip"):
                out["violations"].append({"kind": "init_value", "subkind": fn, "detail": {"fn": fn, "name": n, "got": r.out[idx[n]], "expected": float(val.v)}})
    compared = bad = 0
    modes = {"jit": 0, "nojit": 0}
    seen_bad = set()
    for mode in ("jit", "nojit"):
        calls, meta = [], []
        for j, (pt, res, dec) in enumerate(pts if mode == "jit" else pts[:3]):
            for fn in fns:
                dt = None if fn in ("rhs", "monitor_values") else (0.05, 0.5, 0.0, 1e-3)[j % 4]
                calls.append((fn, pt, dt, None))
                meta.append((fn, j, dt))
        if mode == "nojit":
            with jax.disable_jit():
                rs = m.run(calls)
        else:
            rs = m.run(calls)
        raised_rhs = set()
        for (fn, j, dt), r in zip(meta, rs):
            out["evaluations"] += 1
            pt, res, dec = pts[j]
            if r.exc is not None:
                if any(isinstance(res[dn], (E.Undefined, E.Unsupported)) for dn in ref.derivs.values()):
                    continue
                key = (fn, r.exc[:60])
                if key not in seen_bad:
                    seen_bad.add(key)
                    out["violations"].append({"kind": "raises", "subkind": fn, "detail": {"fn": fn, "mode": mode, "exc": r.exc, "point": pt if len(pt) < 12 else None}})
                continue
            exp, kind = expected(ref, pt, res, fn, dt, stiff)
            if r.shape != (want_len[kind],):
                key = (fn, "len")
                if key not in seen_bad:
                    seen_bad.add(key)
                    out["violations"].append({"kind": "length", "subkind": fn, "detail": {"fn": fn, "mode": mode, "shape": list(r.shape), "expected": want_len[kind]}})
                continue
            modes[mode] += 1
            idx = maps[kind]
            for n, val in exp.items():
                jv = C.judge(r.out[idx[n]], val)
                if jv == "skip":
                    continue
                compared += 1
                if jv == "ok":
                    continue
                root = n if kind == "monitor" else ref.derivs[n]
                if fn in ("rhs", "monitor_values") and C.triage(ref, pt, root, r.out[idx[n]]) == "fragile":
                    continue
                bad += 1
                key = (fn, root)
                if key in seen_bad:
                    continue
                seen_bad.add(key)
                if len(out["violations"]) < 8:
                    out["violations"].append({"kind": "value", "subkind": fn, "detail": {"fn": fn, "mode": mode, "name": root, "expr": ref.assigns[root].rhs[:300], "got": r.out[idx[n]], "expected": float(val.v),
                                                                                      "tol": float(E.tolerance(val)), "dt": dt, "dtype": r.dtype, "point": {q: pt[q] for q in sorted(pt) if len(pt) < 12 or q in ref.deps[root]}}, "_point": dict(pt)})
    cn["compared"] = compared
    cn["disagreements"] = bad
    cn["calls_jit"] = modes["jit"]
    cn["calls_nojit"] = modes["nojit"]
    if out["violations"]:
        out["status"] = "violated"
    out["nontrivial"] = compared >= 2 and modes["jit"] > 0 and modes["nojit"] > 0
    return out


def run_case(spec, ctx):
    rng = C.rng_for(spec)
    text = case_text(spec, rng)
    tier = spec.get("tier", "quick")
    out = check_model(text, rng, want=5 if tier == "quick" else 10, tier=tier, remove_unused=bool(spec.get("remove_unused")))
    if spec.get("exprs") and not spec.get("text") and any(v["kind"] in ("codegen_raises", "raises", "exec_fails") for v in out["violations"]):
        vs, okc = [], 0
        for e in spec["exprs"]:
            sub = check_model(c01.single_text(spec, e), C.rng_for(spec, e), want=3, tier=tier)
            okc += sub["counters"].get("compared", 0)
            out["evaluations"] += sub.get("evaluations", 0)
            for v in sub["violations"]:
                v["detail"]["expression"] = e
                v["text"] = c01.single_text(spec, e)
                v["_cls"] = {"ode": sub.get("_ode"), "ref": sub.get("_ref"), "code": sub.get("code")}
                vs.append(v)
        out["violations"] = vs
        out["counters"]["compared"] = okc
        out["nontrivial"] = okc >= 2
        out["status"] = "violated" if vs else "held"
    feats = models.features(text)
    ode, ref = out.pop("_ode", None), out.pop("_ref", None)
    for v in out["violations"]:
        cls = v.pop("_cls", None) or {"ode": ode, "ref": ref, "code": out.get("code")}
        F.classify(ID, v, text=v.get("text", text), features=feats, **cls)
        v.pop("_point", None)
    out["hash"] = models.structural_hash(text)
    out["model_text"] = text if out["violations"] else None
    out["counters"]["constructs"] = {**{"f:" + k: v for k, v in feats["funcs"].items()}, **feats["bool_arity"]}
    if out["status"] in ("held", "violated") and spec["i"] % 9 == 0:
        out["sample"] = {"klass": spec["klass"], "model_text": text[:1000], "counters": {k: v for k, v in out["counters"].items() if k not in ("points", "constructs")}, "status": out["status"]}
    out.pop("code", None)
    return out


def summarise(records, tier, seed):
    ag = C.aggregate(records)
    cn = ag["counters"]
    cov = {
        "evaluations": ag["evaluations"],
        "distinct_nontrivial": len(ag["hashes"]),
        "rule": "And/Or arity table (2..5 operands, nested), conditional/function/parenthesisation tables, shapes, 0-parameter and many-monitor models, corpus, random models; "
        "evaluation = one call of a generated JAX function (rhs, monitor_values, three schemes, init_*) under jit or under jax.disable_jit(); non-trivial = >= 2 values "
        "compared with the reference and executed in both modes with the documented output length; distinct by structural hash",
        "samples": C.pick_samples(records),
        "per_class_cases": ag["classes"],
        "status": ag["status"],
        "values_compared": cn.get("compared", 0),
        "disagreements": cn.get("disagreements", 0),
        "calls_under_jit": cn.get("calls_jit", 0),
        "calls_under_disable_jit": cn.get("calls_nojit", 0),
        "rl_generation_failed": cn.get("rl_generation_failed", 0),
        "constructs_seen": cn.get("constructs", {}),
    }
    verdict = {}
    if len(ag["hashes"]) < (25 if tier == "quick" else 250):
        verdict["inconclusive"] = f"only {len(ag['hashes'])} distinct non-trivial models"
    return cov, C.BASE_ASSUMPTIONS + ["JAX on CPU, single-threaded XLA; dtype of the returned array is recorded, not judged", "missing_values under JAX is exercised by C13"], verdict
