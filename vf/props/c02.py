"""C02 - generated C compiles (default mode, gcc and clang) and computes the model's values.

Monitors: compile diagnostics; clang ASan+UBSan build driven through exact-size heap buffers with
canaries; gcc -O2 build; every output slot compared with the reference by name."""
from __future__ import annotations

import os
import re

from ..core import env
from ..exec.cexec import CModule
from ..gen import classes, models, points
from ..gen.exprs import Profile
from ..refmodel import evalref as E
from ..refmodel import schemes as S
from ..refmodel.model import RefModel
from . import c01
from . import common as C
from . import findings as F

ID = "C02"
LEVEL = "exploration"
BUDGET = {"quick": 60, "thorough": 540}
PACK = 16
DELTA = 1e-8
DTS = [0.0, 1e-3, 0.1, 0.5]

C_HAZARDS = [
    "1/4 * a", "a * (1/4)", "a ** (1/2)", "a ** (2/3)", "(2*3)/4 * a", "a ** -2/3", "a ** (-2/3)", "2 ** (1/2) * a", "7/2 + a", "-7/2 + a", "7/-2 + a",
    "100000 * 100000 * a", "a + 2147483647 + 1", "(3/2) * b", "b * 3/2", "3/2 * b", "1/3 + 1/3 + a", "a / (1/2)", "a ** (1/3) ** 2", "exp(1/2) * a",
    "sqrt(1/4) + a", "Conditional(Gt(a, 1/2), 1/4, 3/4)", "Conditional(Gt(1/2, 1/4), a, b)", "Mod(7, 2) * a", "Mod(-7, 2) + a", "Mod(7, -2) + a",
    "Mod(a, 2)", "Mod(-a, 2)", "Mod(a, -2)", "Mod(-a, -b)", "Mod(a - 5, 3)", "Mod(a, b) * c", "floor(-a)", "floor(a / 2)", "floor(-7/2) + a", "abs(-a)", "abs(a - b - c)",
    "Conditional(Lt(a, 1), Conditional(Lt(b, 1), 1, 2), Conditional(Lt(c, 1), 3, 4))", "Conditional(And(Gt(a, 1), Lt(b, 1)), a, b)", "Conditional(Or(Gt(a, 1), Lt(b, 1), Eq(c, 2)), a, b)",
    "Conditional(Not(And(Gt(a, 1), Lt(b, 1))), a, b)", "Conditional(Gt(a, 1), 1, 0) + Conditional(Le(b, 1), 1, 0)", "pi * a", "t * a + time", "a ** 2", "a ** 3", "a ** -1", "a ** 0.5", "a ** b",
    "abs(floor(a * 1e10)) * 1e-10", "abs(floor(-a * 4e9)) + b", "abs(floor(a) - 3) * c", "abs(Mod(floor(a * 1e12), 7)) + c",
    "123456789012345678901234567890 * 1e-30 * a", "4503599627370497 * a", "1e300 * 1e-300 * a", "2 ** 10 * a", "2 ** 62 * a", "2 ** 64 * a * 1e-19", "10 ** 10 * a", "3 ** 40 * a * 1e-19",
]


def plan(tier, seed):
    specs = []
    for k, chunk in enumerate(classes.chunks(C_HAZARDS, PACK)):
        specs.append({"klass": "chazard", "i": k, "exprs": chunk, "form": "direct"})
    tables = [("paren", classes.paren_matrix()), ("func", classes.function_table()), ("cond", classes.conditional_table()), ("lit", classes.literal_table())]
    for name, tab in tables:
        for k, chunk in enumerate(classes.chunks(tab, PACK)):
            if tier == "quick" and k % 2 and name in ("paren", "lit"):
                continue
            specs.append({"klass": name, "i": k, "exprs": chunk, "form": "direct" if k % 3 else "inter"})
    for k, chunk in enumerate(classes.chunks(classes.conditional_table(), PACK)):
        # the same conditionals over identifiers that contain tokens of the generated C (true, false, pow, fabs)
        specs.append({"klass": "cond_names", "i": k, "exprs": chunk, "form": "direct" if k % 2 else "inter", "rename": classes.RENAME_TOKENS})
    shapes = [("chain", 40), ("diamond", 10), ("unused", 12), ("random", 20)]
    for k, (sh, n) in enumerate(shapes):
        specs.append({"klass": "shape", "i": k, "shape": sh, "n_inter": n})
    for k, f in enumerate(classes.corpus(env.REPO, big=(tier == "thorough"))):
        specs.append({"klass": "corpus", "i": k, "file": os.path.relpath(f, env.REPO), "soft_timeout": 400})
    n = 600 if tier == "quick" else 5000
    for k in range(n):
        specs.append({"klass": "random", "i": k, "fill": True})
    for s in specs:
        s["prop"] = ID
    return specs


FNS = [("rhs", "rhs", "tsp"), ("monitor_values", "rhs", "tsp"), ("explicit_euler", "scheme", "stdp"), ("generalized_rush_larsen", "scheme", "stdp")]
SCHEMES = ["explicit_euler", "generalized_rush_larsen"]


_NUM = re.compile(r"(?<![\w.])(\d+\.?\d*(?:[eE][-+]?\d+)?|\.\d+(?:[eE][-+]?\d+)?)(?![\w.])(\s*\])?")


def _to_double(m):
    tok, br = m.group(1), m.group(2)
    if br or not tok.isdigit():
        return m.group(0)
    # not an array index such as values[3]
    if m.start() > 0 and m.string[m.start() - 1] == "[":
        return m.group(0)
    return tok + ".0"


def int_to_double(code: str) -> str:
    """Counterfactual: every integer literal of an expression typed double (array indices untouched)."""
    out = []
    for line in code.split("\n"):
        if line.lstrip().startswith(("int ", "#", "//", "if", "else", "return", "}")) or "strcmp" in line:
            out.append(line)
            continue
        out.append(_NUM.sub(_to_double, line))
    return "\n".join(out)


FMOD_FIX = "static double vf_floored_mod(double a, double b) { return a - b * floor(a / b); }\n"


def fmod_to_floored(code: str) -> str:
    return code.replace("#include <string.h>", "#include <string.h>\n" + FMOD_FIX, 1).replace("fmod(", "vf_floored_mod(")


def expected_values(ref, pt, res, dt, fn):
    """name -> Val | Exception for the outputs of `fn` at the point."""
    if fn == "rhs":
        return {s: res[dn] for s, dn in ref.derivs.items()}
    if fn == "monitor_values":
        return dict(res)
    out = {}
    for s, dn in ref.derivs.items():
        f = res[dn]
        if isinstance(f, Exception):
            out[s] = f
            continue
        try:
            if fn == "explicit_euler":
                out[s] = S.euler_val(pt[s], f, dt)
            else:
                g = ref.own_gradient(pt, s)
                gd = E.Val(g.d, 1000 * E.U * g.dm, g.dm == 0 or (g.x and False))
                out[s] = S.grl_val(pt[s], f, gd, dt, DELTA)[0]
        except (E.Undefined, E.Undecidable, E.Unsupported) as exc:
            out[s] = exc
    return out


def run_c(cm, build, reqs):
    return cm.run(build, reqs)


def check_model(text, rng, want=6, tier="quick", work=None):
    out = {"violations": [], "counters": {}, "evaluations": 0, "nontrivial": False, "status": "held"}
    cn = out["counters"]
    try:
        ref = RefModel.from_text(text)
    except E.Unsupported as exc:
        out.update(status="skipped", reason=f"reference_unsupported: {exc}")
        return out
    if ref.ill_formed():
        out.update(status="inconclusive", reason=f"generator produced an ill-formed model {ref.ill_formed()}")
        return out
    lo = C.load_text(text)
    if not lo.ok:
        out.update(status="skipped", reason="rejected_by_loader: " + lo.describe())
        return out
    ode = lo.value
    out["_ode"] = ode  # the object the code under test is generated from (matchers compare it with a fresh interpreter)
    co = C.c_code(ode, schemes=SCHEMES, delta=DELTA)
    fns = list(FNS)
    if not co.ok:
        # try without the Rush-Larsen scheme to separate scheme failures (C06) from the rest
        co2 = C.c_code(ode, schemes=["explicit_euler"])
        if not co2.ok:
            out["status"] = "violated"
            out["violations"].append({"kind": "codegen_raises", "detail": {"exc": co.describe(), "site": C.trace_site(co.exc, 4)}})
            return out
        cn["grl_generation_failed"] = 1
        out["grl_exc"] = co.describe()
        co = co2
        fns = fns[:3]
    code = co.value
    out["code"] = code
    cm = CModule(code, fns, ref.counts())
    try:
        diag = cm.compile_check()
        for cc, d in diag.items():
            if d["rc"] != 0 or d["errors"]:
                out["violations"].append({"kind": "compile_error", "subkind": cc, "detail": {"compiler": cc, "errors": d["errors"]}})
        cn["compile_warnings"] = sum(d["n_warnings"] for d in diag.values())
        if out["violations"]:
            out["status"] = "violated"
            label = None
            alt = int_to_double(code)
            if alt != code:
                cm2 = CModule(alt, fns, ref.counts())
                try:
                    d2 = cm2.compile_check()
                    if all(d["rc"] == 0 for d in d2.values()):
                        label = "C02-integer-literal-arithmetic"
                finally:
                    cm2.close()
            if label is None and any("inf" in " ".join(v["detail"]["errors"]) for v in out["violations"]) and F.folded_constant_out_of_range(ode, ref, list(ref.assigns)):
                label = "C02-folded-constant-out-of-float-range"
            for v in out["violations"]:
                v["finding"] = label
            return out
        b = cm.build()
        if b["asan"][0] != 0 or b["gcc"][0] != 0:
            out.update(status="inconclusive", reason="driver build failed: " + (b["asan"][1] or b["gcc"][1])[-300:])
            return out
        pts, st = points.sample(ref, rng, want=want, max_draws=50 if tier == "quick" else 120)
        cn["points"] = st
        if len(pts) < 2:
            out.update(status="skipped", reason="too few decidable points")
            return out
        snames, pnames, mnames = list(ref.states), list(ref.params), list(ref.assigns)
        # name -> slot through the module's own index functions
        nreq = [("N", 0, n) for n in snames] + [("N", 1, n) for n in pnames] + [("N", 2, n) for n in mnames]
        reqs = list(nreq) + [("I", 0), ("I", 1)]
        plan_ = []
        # placeholder slot maps are resolved after the first run; points need them, so run names first
        r0, info0 = cm.run("gcc", nreq)
        sidx = dict(zip(snames, r0[: len(snames)]))
        pidx = dict(zip(pnames, r0[len(snames) : len(snames) + len(pnames)]))
        midx = dict(zip(mnames, r0[len(snames) + len(pnames) :]))
        for kind, idx, n in (("state", sidx, len(snames)), ("parameter", pidx, len(pnames)), ("monitor", midx, len(mnames))):
            if sorted(idx.values()) != list(range(n)):
                out["violations"].append({"kind": "index_map", "detail": {"kind": kind, "map": idx}})
        if info0["consts"] != [len(snames), len(pnames), len(mnames)]:
            out["violations"].append({"kind": "num_constants", "detail": {"consts": info0["consts"], "expected": [len(snames), len(pnames), len(mnames)]}})
        if out["violations"]:
            out["status"] = "violated"
            return out
        creqs = [("I", 0), ("I", 1)]
        meta = [("init_state_values", None, None), ("init_parameter_values", None, None)]
        for j, (pt, res, dec) in enumerate(pts):
            svec = [0.0] * len(snames)
            pvec = [0.0] * len(pnames)
            for n, i in sidx.items():
                svec[i] = pt[n]
            for n, i in pidx.items():
                pvec[i] = pt[n]
            dt = DTS[j % len(DTS)]
            for fi, (fname, kind, order) in enumerate(fns):
                creqs.append(("C", fi, pt["t"], dt, svec, pvec, []))
                meta.append((fname, j, dt))
        ra, ia = cm.run("asan", creqs)
        rg, ig = cm.run("gcc", creqs)
        cn["sanitized_calls"] = sum(1 for r in ra if r is not None and not getattr(r, "aborted", False))
        cn["ubsan_reports"] = ia["ubsan_reports"]
        cn["asan_reports"] = ia["asan_reports"]
        san_label = None
        if ia["ubsan_reports"] or any(getattr(r, "aborted", False) for r in ra if r is not None):
            alt = int_to_double(code)
            if alt != code:
                cm2 = CModule(alt, fns, ref.counts())
                try:
                    if cm2.build(which=("asan",))["asan"][0] == 0:
                        r2, i2 = cm2.run("asan", creqs)
                        if not i2["ubsan_reports"] and not any(getattr(r, "aborted", False) for r in r2 if r is not None):
                            san_label = "C02-integer-literal-arithmetic"
                finally:
                    cm2.close()
        if ia["ubsan_reports"]:
            out["violations"].append({"kind": "ubsan", "detail": {"first": ia["ubsan_first"], "n": ia["ubsan_reports"]}, "finding": san_label})
        compared = bad = skipped = builds_differ = 0
        bads = []
        for k, (fname, j, dt) in enumerate(meta):
            a, g = ra[k], rg[k]
            out["evaluations"] += 1
            if a is None or g is None:
                continue
            if a.aborted:
                kind = "ubsan_abort" if "runtime error:" in a.report and "AddressSanitizer" not in a.report else "asan"
                out["violations"].append({"kind": kind, "subkind": fname, "detail": {"fn": fname, "report": a.report[-600:]}, "finding": san_label})
                continue
            if a.canary:
                out["violations"].append({"kind": "slot_not_written", "subkind": fname, "detail": {"fn": fname, "slots": a.canary[:10]}})
            if a.inputs_changed:
                out["violations"].append({"kind": "inputs_changed", "subkind": fname, "detail": {"fn": fname}})
            if fname == "init_state_values":
                exp = {n: _decl(ref, n) for n in snames}
                idx = sidx
            elif fname == "init_parameter_values":
                exp = {n: _decl(ref, n) for n in pnames}
                idx = pidx
            else:
                pt, res, dec = pts[j]
                exp = expected_values(ref, pt, res, dt, fname)
                idx = midx if fname == "monitor_values" else sidx
            for n, val in exp.items():
                slot = idx[n]
                ga, gg = a.out[slot], g.out[slot]
                ja = C.judge(ga, val)
                if ja == "skip":
                    skipped += 1
                    continue
                compared += 1
                jg = C.judge(gg, val)
                if ja == "ok" and jg == "ok":
                    continue
                if ja == "ok" or jg == "ok":
                    builds_differ += 1
                if fname not in ("init_state_values", "init_parameter_values") and fname in ("rhs", "monitor_values"):
                    nm = ref.derivs[n] if fname == "rhs" else n
                    if C.triage(ref, pts[j][0], nm, ga if ja != "ok" else gg) == "fragile":
                        cn["fragile_points"] = cn.get("fragile_points", 0) + 1
                        continue
                bad += 1
                bads.append((k, fname, n, slot, ga, gg, val))
        cn["compared"] = compared
        cn["skipped_points"] = skipped
        cn["disagreements"] = bad
        cn["gcc_vs_clang_disagree"] = builds_differ
        if bads:
            cf = counterfactual(cm, code, fns, ref, creqs, bads)
            seen = set()
            for (k, fname, n, slot, ga, gg, val), label in zip(bads, cf):
                key = (fname, n if fname != "rhs" else ref.derivs[n], label)
                root = ref.derivs[n] if fname in ("rhs", "explicit_euler", "generalized_rush_larsen") else n
                if (fname, root) in seen:
                    continue
                seen.add((fname, root))
                d = {"fn": fname, "name": n, "slot": slot, "asan_build": ga, "gcc_build": gg, "expected": float(val.v), "tol": float(E.tolerance(val)),
                     "expr": ref.assigns[root].rhs[:300] if root in ref.assigns else None}
                if fname not in ("init_state_values", "init_parameter_values"):
                    d["point"] = {q: pts[meta[k][1]][0][q] for q in sorted(pts[meta[k][1]][0]) if len(pts[meta[k][1]][0]) < 12 or q in ref.deps.get(root, ())}
                    d["dt"] = meta[k][2]
                if label is None and root in ref.assigns and F.folded_constant_out_of_range(ode, ref, [root]):
                    label = "C02-folded-constant-out-of-float-range"
                v = {"kind": "value", "subkind": fname, "detail": d, "finding": label}
                if fname not in ("init_state_values", "init_parameter_values"):
                    v["_point"] = dict(pts[meta[k][1]][0])
                if len(out["violations"]) < 8:
                    out["violations"].append(v)
        if out["violations"]:
            out["status"] = "violated"
        out["nontrivial"] = compared >= 2
        return out
    finally:
        cm.close()


def _decl(ref, n):
    try:
        return ref.decl_value(n)
    except (E.Undefined, E.Undecidable, E.Unsupported) as exc:
        return exc


def counterfactual(cm, code, fns, ref, creqs, bads):
    """For each disagreeing quantity: which single-mechanism counterfactual of the *generated C*
    restores agreement (both builds)?  -> list of finding ids / None"""
    labels = [None] * len(bads)
    variants = [("C02-integer-literal-arithmetic", int_to_double(code)), ("C02-fmod-sign", fmod_to_floored(code)), ("C02-integer-literal-arithmetic", fmod_to_floored(int_to_double(code)))]
    for fid, vcode in variants:
        if all(l is not None for l in labels):
            break
        if vcode == code:
            continue
        cm2 = CModule(vcode, fns, ref.counts())
        try:
            b = cm2.build(which=("gcc",))
            if b["gcc"][0] != 0:
                continue
            rg, ig = cm2.run("gcc", creqs)
            for i, (k, fname, n, slot, ga, gg, val) in enumerate(bads):
                if labels[i] is None and rg[k] is not None and rg[k].out is not None and C.judge(rg[k].out[slot], val) == "ok":
                    labels[i] = fid
        finally:
            cm2.close()
    return labels


def run_case(spec, ctx):
    rng = C.rng_for(spec)
    text = c01.case_text(spec, rng)
    tier = spec.get("tier", "quick")
    out = check_model(text, rng, want=6 if tier == "quick" else 12, tier=tier)
    if spec.get("exprs") and not spec.get("text") and any(v["kind"] in ("codegen_raises", "compile_error", "asan") for v in out["violations"]):
        vs = []
        okc = 0
        for e in spec["exprs"]:
            sub = check_model(c01.single_text(spec, e), C.rng_for(spec, e), want=4, tier=tier)
            okc += sub["counters"].get("compared", 0)
            out["evaluations"] += sub.get("evaluations", 0)
            for v in sub["violations"]:
                v["detail"]["expression"] = e
                v["text"] = c01.single_text(spec, e)
                v["_ode"] = sub.get("_ode")
                vs.append(v)
        out["violations"] = vs
        out["counters"]["compared"] = okc
        out["nontrivial"] = okc >= 2
        out["status"] = "violated" if vs else "held"
    feats = models.features(text)
    for v in out["violations"]:
        if not v.get("finding"):
            try:
                vref = RefModel.from_text(v.get("text", text))
            except Exception:
                vref = None
            used = v.pop("_ode", None) or out.get("_ode")
            if used is None:
                vode = C.load_text(v.get("text", text))
                used = vode.value if vode.ok else None
            F.classify(ID, v, text=v.get("text", text), features=feats, code=out.get("code"), ref=vref, ode=used)
            v.pop("_point", None)
    out.pop("_ode", None)
    for v in out["violations"]:
        v.pop("_ode", None)
    out["hash"] = models.structural_hash(text)
    out["model_text"] = text
    out["counters"]["constructs"] = {**{"f:" + k: v for k, v in feats["funcs"].items()}, **{"op:" + k: v for k, v in feats["ops"].items()}, **feats["bool_arity"]}
    if out["status"] in ("held", "violated") and spec["i"] % 9 == 0:
        out["sample"] = {"klass": spec["klass"], "model_text": text[:1200], "compared": out["counters"].get("compared"), "sanitized_calls": out["counters"].get("sanitized_calls"), "status": out["status"]}
    out.pop("code", None)
    if out["status"] != "violated":
        out.pop("model_text", None)
    return out


def summarise(records, tier, seed):
    ag = C.aggregate(records)
    cn = ag["counters"]
    cov = {
        "evaluations": ag["evaluations"],
        "distinct_nontrivial": len(ag["hashes"]),
        "rule": "cases: C-hazard table (integer-literal quotients/exponents, Mod/floor/abs on negatives, nested ternaries, booleans), C01's enumerated tables, "
        "graph shapes, corpus, seeded random models; evaluation = one call of a generated C function in the ASan+UBSan build and in the gcc -O2 build; "
        "non-trivial = compiled by gcc and clang in default mode and >= 2 output slots compared with the reference; distinct by structural hash",
        "samples": C.pick_samples(records),
        "per_class_cases": ag["classes"],
        "status": ag["status"],
        "slots_compared": cn.get("compared", 0),
        "slots_skipped": cn.get("skipped_points", 0),
        "disagreements": cn.get("disagreements", 0),
        "sanitizer_instrumented_calls": cn.get("sanitized_calls", 0),
        "ubsan_reports": cn.get("ubsan_reports", 0),
        "asan_reports": cn.get("asan_reports", 0),
        "gcc_vs_clang_disagreements": cn.get("gcc_vs_clang_disagree", 0),
        "compile_warnings_recorded": cn.get("compile_warnings", 0),
        "grl_generation_failed": cn.get("grl_generation_failed", 0),
        "constructs_seen": cn.get("constructs", {}),
        "functions_checked": [f[0] for f in FNS] + ["init_state_values", "init_parameter_values"],
    }
    verdict = {}
    need = 30 if tier == "quick" else 300
    if len(ag["hashes"]) < need:
        verdict["inconclusive"] = f"only {len(ag['hashes'])} distinct non-trivial models (< {need})"
    return cov, C.BASE_ASSUMPTIONS + ["clang 14 ASan/UBSan and gcc 12 are the compilers; 'default mode' = no -std flag", "hybrid_rush_larsen in C is exercised by C07"], verdict
