"""Reference formulas of the time-stepping schemes, with error bounds (DESIGN.md C05-C07)."""
from __future__ import annotations

from . import evalref as E

mpf = E.mpf
U = E.U


def euler_val(x: float, f: E.Val, dt: float) -> E.Val:
    xx, d = mpf(x), mpf(dt)
    v = xx + d * f.v
    e = abs(d) * f.e + 2 * U * (abs(xx) + abs(d * f.v))
    return E.Val(v, e, False)


def branch_is_rl(g: E.Val, delta: float, exactish=False) -> bool:
    """Decide |g| > delta with a margin; raises Undecidable when too close to call."""
    a = abs(g.v)
    dl = mpf(delta)
    gap = abs(a - dl)
    if not (g.x and g.e == 0):
        if gap < mpf("1e-6") * dl or 1000 * g.e >= gap:
            raise E.Undecidable("|g| too close to delta")
    return a > dl


def rl_val(x: float, f: E.Val, g: E.Val, dt: float) -> E.Val:
    """x + (f/g)(exp(g dt) - 1), including the cancellation error of a float64 evaluation of exp(w) - 1."""
    xx, d = mpf(x), mpf(dt)
    if g.v == 0:
        raise E.Undefined("g = 0 on the RL branch")
    if 1000 * g.e >= abs(g.v):
        raise E.Undecidable("g not separated from zero")
    w = g.v * d
    if abs(w) > 600:
        raise E.Undefined("exp overflow in RL term")
    ew = E.ctx.exp(w)
    em1 = E.ctx.expm1(w)
    q = f.v / g.v
    term = q * em1
    # error of q
    qe = f.e / abs(g.v) + abs(q) * g.e / abs(g.v) + U * abs(q)
    # error of (exp(w) - 1) computed in float64: rounding of w, of exp, and of the subtraction
    we = abs(d) * g.e + U * abs(w)
    em1e = ew * we + 4 * U * ew + U * (ew + 1)
    te = abs(em1) * qe + abs(q) * em1e + U * abs(term)
    v = xx + term
    e = te + 2 * U * (abs(xx) + abs(term))
    return E.Val(v, e, False)


def grl_val(x: float, f: E.Val, g: E.Val | None, dt: float, delta: float, g_identically_zero=False) -> tuple:
    """-> (Val, branch) with branch in {"euler_zero", "euler_guard", "rl"}"""
    if g_identically_zero or g is None:
        return euler_val(x, f, dt), "euler_zero"
    if g.v == 0 and g.e == 0:
        return euler_val(x, f, dt), "euler_guard"
    if branch_is_rl(g, delta):
        return rl_val(x, f, g, dt), "rl"
    return euler_val(x, f, dt), "euler_guard"


def own_g(ref, pt, state) -> E.Val:
    """g = d(rate of state)/d(state), all other names frozen, as a Val with the AD's error bound."""
    r = ref.own_gradient(pt, state)
    if r.dm != 0:
        # conditioning of the linearisation in float64: the same derivative evaluated with 53-bit arithmetic (values such
        # as 1 - H with H = 1 - 2e-16 lose all their digits there, which the first-order bound on d does not see)
        old = E.ctx.prec
        try:
            E.ctx.prec = 53
            r53 = ref.own_gradient(pt, state)
        except (E.Undefined, E.Undecidable, E.Unsupported, ZeroDivisionError):
            r53 = None
        finally:
            E.ctx.prec = old
        if r53 is None or abs(r53.d - r.d) > mpf("1e-9") * abs(r.d) + mpf("1e-300"):
            raise E.Undecidable("linearisation ill-conditioned in float64")
    return E.Val(r.d, 1000 * U * r.dm, r.dm == 0)


def expected_update(ref, pt, res, state, dt, kind, delta=1e-8):
    """Reference value of one scheme update.  kind: 'euler' | 'grl'.
    -> (Val, branch) ; raises Undefined/Undecidable when the point cannot be judged."""
    f = res[ref.derivs[state]]
    if isinstance(f, Exception):
        raise f
    if kind == "euler":
        return euler_val(pt[state], f, dt), "euler"
    g = own_g(ref, pt, state)
    return grl_val(pt[state], f, g, dt, delta)
