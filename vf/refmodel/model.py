"""Statement-level scanner for .ode texts and the reference model built from it.

Independent of gotranx/lark/sympy.  Understands the documented block structure:
``parameters(...)``, ``states(...)``, ``expressions(...)`` / ``component(...)`` headers,
bare assignments ``name = rhs  # unit or comment`` and ``# comment`` lines.
"""
from __future__ import annotations

import re
from dataclasses import dataclass, field

from . import evalref as E

_DERIV = re.compile(r"^d(?P<state>\w+)_dt$")
_IDENT = re.compile(r"^[A-Za-z_][A-Za-z_0-9]*$")


@dataclass
class Decl:
    name: str
    value_text: str
    unit: str | None
    desc: str | None
    comps: tuple
    kind: str  # "state" | "parameter"
    line: int = 0


@dataclass
class Assign:
    name: str
    rhs: str
    comps: tuple
    comment: str | None
    line: int = 0


@dataclass
class Scan:
    decls: list = field(default_factory=list)
    assigns: list = field(default_factory=list)
    comments: list = field(default_factory=list)
    notes: list = field(default_factory=list)


def _split_comment(line: str):
    q = None
    for i, ch in enumerate(line):
        if q:
            if ch == q:
                q = None
        elif ch in "\"'":
            q = ch
        elif ch == "#":
            return line[:i], line[i + 1 :]
    return line, None


def _depth_delta(code: str) -> int:
    q = None
    d = 0
    for ch in code:
        if q:
            if ch == q:
                q = None
        elif ch in "\"'":
            q = ch
        elif ch == "(":
            d += 1
        elif ch == ")":
            d -= 1
    return d


def _split_top(s: str, sep=","):
    out, cur, d, q = [], [], 0, None
    for ch in s:
        if q:
            cur.append(ch)
            if ch == q:
                q = None
            continue
        if ch in "\"'":
            q = ch
            cur.append(ch)
        elif ch == "(":
            d += 1
            cur.append(ch)
        elif ch == ")":
            d -= 1
            cur.append(ch)
        elif ch == sep and d == 0:
            out.append("".join(cur))
            cur = []
        else:
            cur.append(ch)
    out.append("".join(cur))
    return out


def _match_paren(s: str, start: int) -> int:
    d, q = 0, None
    for i in range(start, len(s)):
        ch = s[i]
        if q:
            if ch == q:
                q = None
        elif ch in "\"'":
            q = ch
        elif ch == "(":
            d += 1
        elif ch == ")":
            d -= 1
            if d == 0:
                return i
    raise E.Unsupported("unbalanced parentheses")


def _unquote(s: str) -> str:
    s = s.strip()
    if len(s) >= 2 and s[0] == s[-1] and s[0] in "\"'":
        return s[1:-1]
    raise E.Unsupported(f"string expected: {s!r}")


def _find_eq(s: str) -> int:
    d, q = 0, None
    for i, ch in enumerate(s):
        if q:
            if ch == q:
                q = None
        elif ch in "\"'":
            q = ch
        elif ch == "(":
            d += 1
        elif ch == ")":
            d -= 1
        elif ch == "=" and d == 0:
            return i
    return -1


def _parse_decl_entry(entry: str, comps, kind, line) -> Decl:
    k = _find_eq(entry)
    if k < 0:
        raise E.Unsupported(f"declaration entry without '=': {entry!r}")
    name = entry[:k].strip()
    val = entry[k + 1 :].strip()
    if not _IDENT.match(name):
        raise E.Unsupported(f"bad name {name!r}")
    unit = desc = None
    m = re.match(r"^ScalarParam\s*\(", val)
    if m:
        end = _match_paren(val, m.end() - 1)
        if val[end + 1 :].strip():
            raise E.Unsupported("trailing text after ScalarParam")
        inner = _split_top(val[m.end() : end])
        value_text = inner[0].strip()
        for extra in inner[1:]:
            kk = _find_eq(extra)
            key = extra[:kk].strip()
            if key == "unit":
                unit = _unquote(extra[kk + 1 :])
            elif key == "description":
                desc = _unquote(extra[kk + 1 :])
            elif extra.strip():
                raise E.Unsupported(f"ScalarParam argument {extra!r}")
    else:
        value_text = val
    return Decl(name, value_text, unit, desc, tuple(comps), kind, line)


def scan(text: str) -> Scan:
    sc = Scan()
    text = text.replace("\r\n", "\n").replace("\r", "\n")
    lines = text.split("\n")
    buf, depth, start_line, last_comment = [], 0, 0, None
    cur_comps = ("",)
    named = False

    def flush(stmt: str, comment, line):
        nonlocal cur_comps, named
        stmt = stmt.strip()
        if not stmt:
            return
        m = re.match(r"^(states|parameters)\s*\(", stmt)
        if m:
            end = _match_paren(stmt, m.end() - 1)
            inner = stmt[m.end() : end]
            rest = stmt[end + 1 :].strip()
            parts = [p for p in _split_top(inner)]
            comps = []
            entries = []
            for p in parts:
                ps = p.strip()
                if not ps:
                    continue
                if ps[0] in "\"'" and not entries:
                    comps.append(_unquote(ps))
                else:
                    entries.append(ps)
            if not comps:
                comps = [""]
            kind = "state" if m.group(1) == "states" else "parameter"
            for en in entries:
                sc.decls.append(_parse_decl_entry(en, comps, kind, line))
            cur_comps = ("",)
            named = False
            if rest:
                flush(rest, comment, line)
            return
        m = re.match(r"^(expressions|component)\s*\(", stmt)
        if m:
            end = _match_paren(stmt, m.end() - 1)
            inner = stmt[m.end() : end]
            cur_comps = tuple(_unquote(p) for p in _split_top(inner) if p.strip())
            named = True
            rest = stmt[end + 1 :].strip()
            if rest:
                flush(rest, comment, line)
            return
        k = _find_eq(stmt)
        if k < 0:
            raise E.Unsupported(f"statement not understood: {stmt[:60]!r}")
        name = stmt[:k].strip()
        if not _IDENT.match(name):
            raise E.Unsupported(f"bad assignment target {name!r}")
        sc.assigns.append(Assign(name, stmt[k + 1 :].strip(), cur_comps, comment, line))

    for ln, raw in enumerate(lines, 1):
        code, comment = _split_comment(raw)
        if not buf:
            if not code.strip():
                if comment is not None:
                    sc.comments.append(comment.strip())
                    if named:
                        sc.notes.append(("comment_inside_named_block", ln))
                continue
            start_line = ln
        elif comment is not None and depth > 0:
            raise E.Unsupported("comment inside an open parenthesis")
        buf.append(code)
        depth += _depth_delta(code)
        if depth < 0:
            raise E.Unsupported("unbalanced parentheses")
        if depth == 0:
            stmt = " ".join(buf)
            buf = []
            # an expression may continue on the next line if this one ends with an operator
            if re.search(r"[-+*/=,]\s*$", stmt) and comment is None:
                buf = [stmt]
                continue
            flush(stmt, comment.strip() if comment is not None else None, start_line)
    if buf:
        raise E.Unsupported("unterminated statement")
    return sc


class RefModel:
    def __init__(self, sc: Scan, text: str = ""):
        self.text = text
        self.scan = sc
        self.states = {}  # name -> Decl (first declaration)
        self.params = {}
        self.assigns = {}  # name -> Assign (first definition)
        self.problems = []  # (kind, name)
        self._parsed = {}
        self._src = {}
        seen_decl = {}
        for d in sc.decls:
            if d.name in seen_decl:
                o = seen_decl[d.name]
                same = o.kind == d.kind and _same_text(o.value_text, d.value_text)
                self.problems.append(("benign_duplicate_decl" if same and o.comps == d.comps and o.unit == d.unit and o.desc == d.desc else ("kind_clash" if o.kind != d.kind else "duplicate_decl"), d.name))
                continue
            seen_decl[d.name] = d
            (self.states if d.kind == "state" else self.params)[d.name] = d
        for a in sc.assigns:
            if a.name in seen_decl:
                self.problems.append(("kind_clash", a.name))
            if a.name in self.assigns:
                o = self.assigns[a.name]
                if _same_text(o.rhs, a.rhs) and o.comps == a.comps:
                    self.problems.append(("benign_duplicate", a.name))
                elif _same_text(o.rhs, a.rhs) and not _DERIV.match(a.name):
                    # the same definition repeated in another component (e.g. a shared helper constant): it belongs to both
                    self.problems.append(("benign_duplicate_in_other_component", a.name))
                    o.comps = tuple(sorted(set(o.comps) | set(a.comps)))
                else:
                    self.problems.append(("duplicate", a.name))
                continue
            self.assigns[a.name] = a
        for n, a in self.assigns.items():
            node, src = E.parse_expr(a.rhs)
            self._parsed[n] = node
            self._src[n] = src
        self._decl_parsed = {}
        for n, d in {**self.states, **self.params}.items():
            self._decl_parsed[n] = E.parse_expr(d.value_text)
        # derivative pairing, by the documented d<STATE>_dt rule (per component)
        self.derivs = {}  # state -> assignment name
        for n, a in self.assigns.items():
            m = _DERIV.match(n)
            if not m:
                continue
            st = m.group("state")
            d = self.states.get(st)
            if d is None or not (set(d.comps) & set(a.comps)):
                self.problems.append(("orphan_derivative", n))
                continue
            self.derivs[st] = n
        for st in self.states:
            if st not in self.derivs:
                self.problems.append(("missing_derivative", st))
        self.intermediates = [n for n in self.assigns if n not in self.derivs.values()]
        self.deps = {n: E.names_in(self._parsed[n]) for n in self.assigns}

    @classmethod
    def from_text(cls, text: str) -> "RefModel":
        return cls(scan(text), text)

    # ----------------------------------------------------------- well-formedness
    def defined_names(self):
        return set(self.states) | set(self.params) | set(self.assigns) | {"t", "time"}

    def missing_names(self):
        used = set()
        for n in self.assigns:
            used |= self.deps[n]
        return sorted(used - self.defined_names())

    def cycle(self):
        color = {}
        def visit(n, stack):
            color[n] = 1
            for m in sorted(self.deps.get(n, ())):
                if m not in self.assigns:
                    continue
                if color.get(m) == 1:
                    return m
                if m not in color:
                    r = visit(m, stack)
                    if r:
                        return r
            color[n] = 2
            return None
        import sys
        sys.setrecursionlimit(max(sys.getrecursionlimit(), 10000))
        for n in self.assigns:
            if n not in color:
                r = visit(n, [])
                if r:
                    return r
        return None

    def ill_formed(self, allow_missing=False):
        """None if well formed, else (kind, name).  Benign duplicates are reported by benign()."""
        for k, n in self.problems:
            if not k.startswith("benign"):
                return (k, n)
        if not allow_missing:
            m = self.missing_names()
            if m:
                return ("undefined", m[0])
        c = self.cycle()
        if c:
            return ("cycle", c)
        return None

    def benign(self):
        return [p for p in self.problems if p[0].startswith("benign")]

    def counts(self):
        return {
            "states": len(self.states),
            "parameters": len(self.params),
            "monitored": len(self.assigns),
            "intermediates": len(self.intermediates),
        }

    def depth(self):
        memo = {}
        def d(n, guard=0):
            if n in memo:
                return memo[n]
            memo[n] = 0
            r = 1 + max([d(m) for m in self.deps[n] if m in self.assigns] or [0])
            memo[n] = r
            return r
        import sys
        sys.setrecursionlimit(max(sys.getrecursionlimit(), 10000))
        return max([d(n) for n in self.assigns] or [0])

    # --------------------------------------------------------------- evaluation
    def default_point(self, t=0.0):
        """Declared defaults as doubles (value expressions evaluated by the reference)."""
        pt = {"t": float(t)}
        for n in list(self.states) + list(self.params):
            v = self.decl_value(n)
            pt[n] = float(v.v)
        return pt

    def decl_value(self, name) -> E.Val:
        node, src = self._decl_parsed[name]
        ev = E.Evaluator({}, {}, {})
        return ev.expr(node, src)

    def evaluator(self, point, wrt=None, frozen=False, extra=None, literal_mode="exact", dps=None):
        inputs = {}
        for n, f in point.items():
            inputs[n] = E.val_from_float(float(f), (1 if n == wrt else 0) if wrt else None)
        if "t" in inputs:
            inputs["time"] = inputs["t"]
        if extra:
            inputs.update(extra)
        ev = E.Evaluator(inputs, self._parsed, self._src, want_d=wrt is not None, frozen=frozen)
        ev.literal_mode = literal_mode
        return ev

    def evaluate(self, point, names=None, wrt=None, frozen=False, literal_mode="exact"):
        """-> ({name: Val | Exception}, decisions)"""
        ev = self.evaluator(point, wrt=wrt, frozen=frozen, literal_mode=literal_mode)
        out = {}
        for n in names if names is not None else self.assigns:
            try:
                out[n] = ev.value_of(n)
            except (E.Undefined, E.Undecidable, E.Unsupported) as exc:
                out[n] = exc
        return out, tuple(ev.decisions)

    def own_gradient(self, point, state):
        """g = d(rate expression of state)/d(state), every other name (intermediates too) frozen."""
        ev = self.evaluator(point, wrt=state, frozen=True)
        return ev.value_of(self.derivs[state])

    def total_gradient(self, point, rate_state, wrt_state):
        ev = self.evaluator(point, wrt=wrt_state, frozen=False)
        return ev.value_of(self.derivs[rate_state])


def _same_text(a: str, b: str) -> bool:
    return "".join(a.split()) == "".join(b.split())
