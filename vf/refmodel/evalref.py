"""Reference evaluator for the gotranx expression language.

Independent of gotranx, lark and sympy.  Parsing is CPython's (``ast``): every
right-hand side of the language is a valid Python expression and the property
defines the meaning as "Python-style precedence and associativity".  Evaluation is
mpmath at 60 digits with a running first-order error bound, an ``exact`` flag,
decision margins, and optional forward-mode derivatives (value ``d`` and a
cancellation-free magnitude bound ``dm``).  Normative rules: DESIGN.md appendix A.
"""
from __future__ import annotations

import ast
from fractions import Fraction

import mpmath

ctx = mpmath.mp.clone()
ctx.dps = 60
mpf = ctx.mpf
U = mpf(2) ** -52
ZERO = mpf(0)
ONE = mpf(1)
BIG = mpf(2) ** 40
SMALL = mpf(2) ** -40
REL_MARGIN = mpf("1e-6")
FIRST_ORDER_MAX = mpf("1e-7")
COUNTERS: dict = {}  # observations of the evaluator itself (e.g. saturated sigmoids met)
RANGE_HI = mpf("1e300")
RANGE_LO = mpf("1e-290")


class Undefined(Exception):
    """The mathematical expression leaves its domain at this point."""


class Undecidable(Exception):
    """A discontinuity / comparison is too close to call under float64 rounding."""


class IllFormed(Exception):
    """Unknown name or cyclic definition: the *model* is ill-formed."""

    def __init__(self, kind, name):
        super().__init__(f"{kind}:{name}")
        self.kind = kind
        self.name = name


class Unsupported(Exception):
    """The text is outside the language the reference understands."""


class Val:
    __slots__ = ("v", "e", "x", "d", "dm")

    def __init__(self, v, e=ZERO, x=False, d=None, dm=None):
        self.v = v
        self.e = e
        self.x = x
        self.d = d
        self.dm = dm

    def __repr__(self):
        return f"Val({mpmath.nstr(self.v, 17)}, e={mpmath.nstr(self.e, 3)}, x={self.x})"


def _small_dyadic_fraction(fr: Fraction) -> bool:
    den = fr.denominator
    if den & (den - 1):
        return False
    return abs(fr.numerator).bit_length() <= 53 and den.bit_length() <= 60


def val_from_float(f: float, d=None) -> Val:
    """An input (t, state, parameter): the generated code receives exactly this double."""
    import math

    if not math.isfinite(f):
        raise Undefined("non-finite input")
    fr = Fraction(f)
    dd = None if d is None else mpf(d)
    return Val(mpf(f), ZERO, _small_dyadic_fraction(fr), dd, None if d is None else abs(dd))


def val_from_literal(text: str, want_d=False) -> Val:
    fr = Fraction(text)
    v = mpf(fr.numerator) / mpf(fr.denominator)
    if _small_dyadic_fraction(fr):
        return Val(v, ZERO, True, ZERO if want_d else None, ZERO if want_d else None)
    # integers below 2**53 are exact doubles, too
    if fr.denominator == 1 and abs(fr.numerator) < 2**53:
        return Val(v, ZERO, False, ZERO if want_d else None, ZERO if want_d else None)
    return Val(v, U * abs(v), False, ZERO if want_d else None, ZERO if want_d else None)


def _in_range(v):
    """v (an mpf computed exactly from exact operands) is a double: <= 53 significant bits, moderate magnitude."""
    if v == 0:
        return True
    if not (SMALL < abs(v) < BIG):
        return False
    return v._mpf_[3] <= 53


_REL = {"Lt", "Gt", "Le", "Ge", "Eq"}
_BOOL = {"Not", "And", "Or"}
_FUNCS = {
    "exp",
    "cos",
    "sin",
    "tan",
    "acos",
    "asin",
    "atan",
    "log",
    "ln",
    "sqrt",
    "abs",
    "Abs",
    "floor",
    "Mod",
}


class Evaluator:
    """Evaluate expressions of one model at one point.

    ``inputs``      name -> Val for t/time, states, parameters (and missing variables)
    ``defs``        name -> parsed ast (python ``ast`` node) for intermediates / derivatives
    ``frozen``      derivative mode: names in defs get dual 0 (C06/C07) instead of propagating
    """

    def __init__(self, inputs, defs, src, want_d=False, frozen=False, margins=None, relmargin=REL_MARGIN):
        self.inputs = inputs
        self.defs = defs
        self.src = src  # name -> source text (for literal segments)
        self.want_d = want_d
        self.frozen = frozen
        self.memo = {}
        self.busy = set()
        self.margins = margins if margins is not None else []
        self.decisions = []  # branch signature
        self.relmargin = relmargin
        self.literal_mode = "exact"  # or "double": literal leaves taken as nearest doubles (triage)

    # ------------------------------------------------------------------ names
    def name(self, n: str) -> Val:
        if n in self.inputs:
            return self.inputs[n]
        if n == "pi":
            z = ZERO if self.want_d else None
            return Val(+ctx.pi, U * ctx.pi, False, z, z)
        if n in self.memo:
            r = self.memo[n]
            if isinstance(r, Exception):
                raise r
            if self.frozen and self.want_d:
                return Val(r.v, r.e, r.x, ZERO, ZERO)
            return r
        if n not in self.defs:
            raise IllFormed("undefined", n)
        if n in self.busy:
            raise IllFormed("cycle", n)
        self.busy.add(n)
        try:
            r = self.expr(self.defs[n], self.src[n])
        except (Undefined, Undecidable, Unsupported) as exc:
            self.memo[n] = exc
            raise
        finally:
            self.busy.discard(n)
        self.memo[n] = r
        if self.frozen and self.want_d:
            return Val(r.v, r.e, r.x, ZERO, ZERO)
        return r

    def value_of(self, n: str) -> Val:
        """Value of a defined name with its own derivative information intact."""
        self.name(n)
        r = self.memo[n]
        if isinstance(r, Exception):
            raise r
        return r

    # ------------------------------------------------------------ expressions
    def expr(self, node, src) -> Val:
        m = getattr(self, "n_" + type(node).__name__, None)
        if m is None:
            raise Unsupported(type(node).__name__)
        r = m(node, src)
        a = abs(r.v)
        if a > RANGE_HI or (a != 0 and a < RANGE_LO):
            # outside the range where float64 keeps full relative precision
            raise Undefined("beyond float64 range")
        return r

    def n_Expression(self, node, src):
        return self.expr(node.body, src)

    def n_Constant(self, node, src):
        if isinstance(node.value, bool) or not isinstance(node.value, (int, float)):
            raise Unsupported(repr(node.value))
        text = ast.get_source_segment(src, node)
        if self.literal_mode == "double":
            return val_from_float(float(text), ZERO if self.want_d else None)
        return val_from_literal(text, self.want_d)

    def n_Name(self, node, src):
        return self.name(node.id)

    def n_UnaryOp(self, node, src):
        a = self.expr(node.operand, src)
        if isinstance(node.op, ast.UAdd):
            return a
        if isinstance(node.op, ast.USub):
            return Val(-a.v, a.e, a.x, None if a.d is None else -a.d, a.dm)
        raise Unsupported("unary " + type(node.op).__name__)

    def n_BinOp(self, node, src):
        a = self.expr(node.left, src)
        b = self.expr(node.right, src)
        op = type(node.op)
        if op is ast.Add or op is ast.Sub:
            return self._add(a, b, -1 if op is ast.Sub else 1)
        if op is ast.Mult:
            return self._mul(a, b)
        if op is ast.Div:
            return self._div(a, b)
        if op is ast.Pow:
            return self._pow(a, b)
        raise Unsupported("binop " + op.__name__)

    def _dd(self, *vals):
        return self.want_d and all(v.d is not None for v in vals)

    def _add(self, a, b, sgn):
        v = a.v + sgn * b.v
        x = a.x and b.x and abs(v) < BIG and _in_range(v) if v != 0 else (a.x and b.x)
        e = a.e + b.e + (ZERO if x else U * (abs(a.v) + abs(b.v)))
        if self._dd(a, b):
            return Val(v, e, x, a.d + sgn * b.d, a.dm + b.dm)
        return Val(v, e, x)

    def _mul(self, a, b):
        v = a.v * b.v
        x = a.x and b.x and _in_range(v)
        e = abs(a.v) * b.e + abs(b.v) * a.e + (ZERO if x else U * abs(v))
        if self._dd(a, b):
            return Val(v, e, x, a.d * b.v + a.v * b.d, abs(b.v) * a.dm + abs(a.v) * b.dm)
        return Val(v, e, x)

    def _div(self, a, b):
        if b.v == 0:
            raise Undefined("division by zero")
        if 1000 * b.e >= abs(b.v):
            raise Undecidable("denominator not separated from zero")
        self.margins.append(("div", abs(b.v)))
        v = a.v / b.v
        e = a.e / abs(b.v) + abs(v) * b.e / abs(b.v) + U * abs(v)
        if self._dd(a, b):
            d = (a.d * b.v - a.v * b.d) / (b.v * b.v)
            dm = a.dm / abs(b.v) + abs(a.v) * b.dm / (b.v * b.v)
            return Val(v, e, False, d, dm)
        return Val(v, e, False)

    def _pow(self, a, b):
        bi = None
        if b.x and b.e == 0 and b.v == ctx.floor(b.v) and abs(b.v) <= 64 and not (self.want_d and b.dm is not None and b.dm != 0):
            bi = int(b.v)
        if bi is not None:
            if a.v == 0 and bi < 0:
                raise Undefined("0**negative")
            if bi == 0:
                z = ZERO if self._dd(a, b) else None
                return Val(ONE, ZERO, True, z, z)
            if a.v == 0:
                if a.e != 0:
                    raise Undecidable("base not separated from zero")
                if self._dd(a, b):
                    k = a.v ** (bi - 1) * bi
                    return Val(ZERO, ZERO, a.x, k * a.d, abs(k) * a.dm)
                return Val(ZERO, ZERO, a.x)
            if bi < 0 and 1000 * a.e >= abs(a.v):
                raise Undecidable("base not separated from zero")
            v = a.v**bi
            x = a.x and bi >= 0 and _in_range(v)
            e = ZERO if x else abs(v) * (abs(bi) * a.e / abs(a.v) + U * abs(bi))
            if self._dd(a, b):
                d = bi * a.v ** (bi - 1) * a.d
                dm = abs(bi * a.v ** (bi - 1)) * a.dm
                return Val(v, e, x, d, dm)
            return Val(v, e, x)
        # general real power: exp(b ln a)
        if a.v < 0:
            raise Undefined("negative base with non-integer exponent")
        if a.v == 0:
            if a.e != 0:
                raise Undecidable("base not separated from zero")
            if b.v > 0 and b.e < b.v:
                z = ZERO if self._dd(a, b) else None
                if self._dd(a, b) and (a.d != 0 or b.d != 0):
                    raise Undecidable("derivative of 0**b")
                return Val(ZERO, ZERO, False, z, z)
            raise Undefined("0**nonpositive")
        if 1000 * a.e >= a.v:
            raise Undecidable("base not separated from zero")
        la = ctx.log(a.v)
        w = b.v * la
        if abs(w) > 600:
            raise Undefined("power overflow")
        v = ctx.exp(w)
        e = abs(v) * (abs(b.v) * a.e / a.v + abs(la) * b.e + 4 * U * (1 + abs(w)))
        if self._dd(a, b):
            d = v * (b.d * la + b.v * a.d / a.v)
            dm = abs(v) * (b.dm * abs(la) + abs(b.v) * a.dm / a.v)
            return Val(v, e, False, d, dm)
        return Val(v, e, False)

    # ------------------------------------------------------------------ calls
    def n_Call(self, node, src):
        if not isinstance(node.func, ast.Name) or node.keywords:
            raise Unsupported("call")
        f = node.func.id
        if f == "Conditional":
            if len(node.args) != 3:
                raise Unsupported("Conditional arity")
            c = self.boolean(node.args[0], src)
            self.decisions.append(bool(c))
            return self.expr(node.args[1] if c else node.args[2], src)
        if f == "ContinuousConditional":
            return self._ccond(node, src)
        if f in _REL or f in _BOOL:
            raise Unsupported("boolean used as number")
        if f not in _FUNCS:
            raise Unsupported("function " + f)
        args = [self.expr(a, src) for a in node.args]
        if f == "Mod":
            if len(args) != 2:
                raise Unsupported("Mod arity")
            return self._mod(*args)
        if len(args) != 1:
            raise Unsupported(f + " arity")
        return getattr(self, "f_" + f)(args[0])

    def _fun(self, a, v, dv):
        """value v = f(a), dv = f'(a)"""
        if a.e > FIRST_ORDER_MAX and a.e > FIRST_ORDER_MAX * abs(a.v):
            # the argument's own uncertainty is too large for a first-order bound to mean anything
            raise Undecidable("argument error too large for a first-order bound")
        e = abs(dv) * a.e + 4 * U * abs(v)
        if self.want_d and a.d is not None:
            return Val(v, e, False, dv * a.d, abs(dv) * a.dm)
        return Val(v, e, False)

    def f_exp(self, a):
        if abs(a.v) > 600:
            raise Undefined("exp overflow")
        if a.e > mpf("1e-3"):
            raise Undecidable("argument error too large for exp")
        v = ctx.exp(a.v)
        r = self._fun(a, v, v)
        r.e += v * a.e * a.e
        return r

    def f_log(self, a):
        if a.v <= 0:
            raise Undefined("log of non-positive")
        if 1000 * a.e >= a.v:
            raise Undecidable("log argument not separated from zero")
        self.margins.append(("log", a.v))
        v = ctx.log(a.v)
        r = self._fun(a, v, 1 / a.v)
        # near a = 1 the result is small while the argument's rounding is not
        r.e = a.e / a.v + 4 * U * abs(v) + (ZERO if a.x else U)
        return r

    f_ln = f_log

    def f_sqrt(self, a):
        if a.v < 0:
            raise Undefined("sqrt of negative")
        if a.v == 0:
            if not (a.x and a.e == 0):
                raise Undecidable("sqrt argument not separated from zero")
            if self.want_d and a.d is not None and a.d != 0:
                raise Undefined("derivative of sqrt at 0")
            z = ZERO if self.want_d else None
            return Val(ZERO, ZERO, True, z, z)
        if 1000 * a.e >= a.v:
            raise Undecidable("sqrt argument not separated from zero")
        v = ctx.sqrt(a.v)
        return self._fun(a, v, 1 / (2 * v))

    def _periodic_ok(self, a):
        if a.e > FIRST_ORDER_MAX:
            raise Undecidable("argument error too large for a periodic function")

    def f_sin(self, a):
        self._periodic_ok(a)
        r = self._fun(a, ctx.sin(a.v), ctx.cos(a.v))
        r.e += a.e * a.e
        return r

    def f_cos(self, a):
        self._periodic_ok(a)
        r = self._fun(a, ctx.cos(a.v), -ctx.sin(a.v))
        r.e += a.e * a.e
        return r

    def f_atan(self, a):
        return self._fun(a, ctx.atan(a.v), 1 / (1 + a.v * a.v))

    def f_tan(self, a):
        self._periodic_ok(a)
        c = ctx.cos(a.v)
        if abs(c) < REL_MARGIN:
            raise Undefined("tan near pole")
        return self._fun(a, ctx.tan(a.v), 1 / (c * c))

    def _asincos(self, a, which):
        if abs(a.v) > 1:
            raise Undefined(which + " outside [-1, 1]")
        if 1 - abs(a.v) < REL_MARGIN:
            if a.e != 0:
                raise Undecidable(which + " near domain edge")
            if abs(a.v) == 1:
                if self.want_d and a.d is not None and a.d != 0:
                    raise Undefined("derivative at domain edge")
                v = ctx.asin(a.v) if which == "asin" else ctx.acos(a.v)
                z = ZERO if self.want_d else None
                return Val(v, 4 * U * abs(v), False, z, z)
        s = ctx.sqrt(1 - a.v * a.v)
        if which == "asin":
            return self._fun(a, ctx.asin(a.v), 1 / s)
        return self._fun(a, ctx.acos(a.v), -1 / s)

    def f_asin(self, a):
        return self._asincos(a, "asin")

    def f_acos(self, a):
        return self._asincos(a, "acos")

    def f_abs(self, a):
        if self.want_d and a.d is not None and a.dm != 0:
            # derivative requested: the sign of the argument must be robust
            if a.v == 0 or 1000 * a.e >= abs(a.v):
                raise Undecidable("abs kink")
            s = 1 if a.v > 0 else -1
            return Val(abs(a.v), a.e, a.x, s * a.d, a.dm)
        return Val(abs(a.v), a.e, a.x, a.d, a.dm)

    f_Abs = f_abs

    def _int_distance(self, q, qe, exact):
        """Decide floor(q); q has error bound qe."""
        fl = ctx.floor(q)
        if exact and qe == 0:
            return fl
        d = min(q - fl, fl + 1 - q)
        if d < REL_MARGIN or 1000 * qe >= d:
            raise Undecidable("floor/Mod argument too close to an integer")
        self.margins.append(("floor", d))
        return fl

    def f_floor(self, a):
        fl = self._int_distance(a.v, a.e, a.x)
        z = ZERO if (self.want_d and a.d is not None) else None
        return Val(fl, ZERO, abs(fl) < BIG, z, z)

    def _mod(self, a, b):
        if b.v == 0:
            raise Undefined("Mod by zero")
        if 1000 * b.e >= abs(b.v):
            raise Undecidable("Mod divisor not separated from zero")
        q = a.v / b.v
        both = a.x and b.x and a.e == 0 and b.e == 0 and _in_range(q)
        qe = ZERO if both else (a.e / abs(b.v) + abs(q) * b.e / abs(b.v) + U * abs(q))
        fl = self._int_distance(q, qe, both)
        v = a.v - b.v * fl
        x = both and _in_range(v)
        e = ZERO if x else a.e + abs(fl) * b.e + U * (abs(a.v) + abs(b.v * fl))
        if self._dd(a, b):
            return Val(v, e, x, a.d - b.d * fl, a.dm + b.dm * abs(fl))
        return Val(v, e, x)

    def _ccond(self, node, src):
        if len(node.args) != 4:
            raise Unsupported("ContinuousConditional arity")
        rel = node.args[0]
        if not (isinstance(rel, ast.Call) and isinstance(rel.func, ast.Name) and rel.func.id in ("Lt", "Gt", "Le", "Ge")):
            raise Unsupported("ContinuousConditional condition")
        l = self.expr(rel.args[0], src)
        r = self.expr(rel.args[1], src)
        a = self.expr(node.args[1], src)
        b = self.expr(node.args[2], src)
        s = self.expr(node.args[3], src)
        z = self._div(self._add(l, r, -1), s)
        one = Val(ONE, ZERO, True, ZERO if self.want_d else None, ZERO if self.want_d else None)
        if abs(z.v) > 600:
            # saturated: 1/(1 + exp(z)) is 0 or 1 to within exp(-600); float64 evaluates it so as well (1/(1 + inf) = 0)
            if z.e > 1:
                raise Undecidable("saturated sigmoid with an uncertain argument")
            COUNTERS["saturated_sigmoid"] = COUNTERS.get("saturated_sigmoid", 0) + 1
            H = Val(ZERO if z.v > 0 else ONE, mpf("1e-250"), False, ZERO if self.want_d else None, ZERO if self.want_d else None)
        else:
            H = self._div(one, self._add(one, self.f_exp(z), 1))
        omH = self._add(one, H, -1)
        if rel.func.id in ("Gt", "Ge"):
            return self._add(self._mul(a, omH), self._mul(b, H), 1)
        return self._add(self._mul(a, H), self._mul(b, omH), 1)

    # --------------------------------------------------------------- booleans
    def boolean(self, node, src) -> bool:
        if not (isinstance(node, ast.Call) and isinstance(node.func, ast.Name)):
            raise Unsupported("boolean expression expected")
        f = node.func.id
        if f in _REL:
            if len(node.args) != 2:
                raise Unsupported("relation arity")
            a = self.expr(node.args[0], src)
            b = self.expr(node.args[1], src)
            return self._rel(f, a, b)
        if f == "Not":
            if len(node.args) != 1:
                raise Unsupported("Not arity")
            return not self.boolean(node.args[0], src)
        if f == "And" or f == "Or":
            vals = [self.boolean(a, src) for a in node.args]
            return all(vals) if f == "And" else any(vals)
        raise Unsupported("boolean function " + f)

    def _rel(self, f, a, b):
        diff = a.v - b.v
        if diff == 0 and self.want_d and ((a.dm or 0) != 0 or (b.dm or 0) != 0):
            # differentiating with respect to a variable that sits exactly on the switching point of this relation:
            # the branch-wise derivative depends on how the (equal-valued) branches are written
            raise Undecidable("derivative at a switching point")
        if not (a.x and b.x and a.e == 0 and b.e == 0):
            gap = abs(diff)
            scale = max(abs(a.v), abs(b.v))
            if gap < self.relmargin * scale or gap == 0 or 1000 * (a.e + b.e) >= gap:
                raise Undecidable("comparison too close")
            self.margins.append(("rel", gap / scale if scale else gap))
        if f == "Lt":
            return diff < 0
        if f == "Gt":
            return diff > 0
        if f == "Le":
            return diff <= 0
        if f == "Ge":
            return diff >= 0
        return diff == 0


def parse_expr(text: str):
    """Parse a right-hand side with CPython's parser (the documented precedence)."""
    src = text.strip()
    # the language allows line breaks anywhere inside an expression
    src = " ".join(src.split())
    try:
        return ast.parse(src, mode="eval"), src
    except SyntaxError as exc:
        raise Unsupported(f"not a python expression: {src!r}: {exc}") from exc


def names_in(node) -> set:
    """Variable names an expression mentions (function names excluded)."""
    # remove names that only occur as call targets
    calls = [n.func for n in ast.walk(node) if isinstance(n, ast.Call) and isinstance(n.func, ast.Name)]
    call_ids = {id(c) for c in calls}
    out = set()
    for n in ast.walk(node):
        if isinstance(n, ast.Name) and id(n) not in call_ids:
            out.add(n.id)
    out.discard("pi")
    return out


TOL_ABS = mpf("1e-300")


def tolerance(val: Val):
    return 1000 * val.e + mpf("1e-12") * abs(val.v) + TOL_ABS


def well_conditioned(val: Val) -> bool:
    return val.e <= mpf("1e-9") * max(abs(val.v), TOL_ABS)


def agrees(got: float, val: Val) -> bool:
    import math

    if not math.isfinite(got):
        return False
    return abs(mpf(got) - val.v) <= tolerance(val)
