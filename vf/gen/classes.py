"""Enumerated (seed-independent) expression classes and the packed-probe model builder."""
from __future__ import annotations

import glob
import os

BIN = ["+", "-", "*", "/", "**"]


def paren_matrix():
    """Every (outer op, inner op, side, explicit parentheses) over + - * / ** and unary minus,
    plus the associativity / sign traps."""
    out = []
    A, B, C = "a", "b", "c"
    for o in BIN:
        for i in BIN + ["neg"]:
            for side in "LR":
                for par in (True, False):
                    inner = f"-{A}" if i == "neg" else f"{A} {i} {B}"
                    if par:
                        inner = f"({inner})"
                    e = f"{inner} {o} {C}" if side == "L" else f"{C} {o} {inner}"
                    out.append(e)
    traps = [
        "a - b - c", "a - (b - c)", "a / b / c", "a / (b / c)", "a ** b ** c", "(a ** b) ** c",
        "-a ** b", "(-a) ** 2", "-a ** 2", "a ** -b", "2 ** -a ** 2", "a / -b ** 2", "a * -b", "a - -b",
        "--a", "-+-a", "+a", "a - - - b", "a*b/c*a", "a/b*c", "a - b + c", "a - (b + c)", "-(a + b)",
        "-(a - b) * c", "-a * -b", "-(a * b) / c", "(a + b) * (a - c)", "a + b * c ** 2", "(a + b * c) ** 2",
        "a / b ** c", "(a / b) ** c", "a ** (1/2)", "a ** (2/3)", "a ** 0.5", "a ** -0.5", "a ** (-1/3)",
        "a ** -1", "1 / a", "1 / a / b", "2 * a ** 2 / 3", "a ** 2 ** 0.5", "-2 ** 2", "(-2) ** 2 * a",
        "a - 2 * (b - 3 * (c - 4 * a))", "a / (b * c)", "a / b * c", "a * (b / c)", "a % 1" if False else "a + 1e-3 * b",
        "a * 1e3 - b * 1E-3", "a - (-b)", "a + (-b) ** 3", "-(-(a))", "-(a ** 2) + (-a) ** 2", "a ** 3 / a ** 2",
        "(a - b) / (a + b)", "(a - b) / (a - c)", "a * b - a * c", "1 - a", "1 - (1 - a)", "0 - a", "0 * a + b", "a ** 1", "a ** 0 + b",
        "p * (a - b) / k", "-p * a + k * b - c", "k / p / a", "(k / p) ** a",
    ]
    return out + traps


def function_table():
    out = []
    funcs = ["exp", "cos", "sin", "tan", "acos", "asin", "atan", "log", "ln", "sqrt", "abs", "Abs", "floor"]
    shapes = ["{f}(a)", "{f}(-a)", "{f}(a / 2)", "{f}(a - b)", "{f}(a * p)", "{f}(c / 4) * a", "-{f}(b) ** 2", "{f}({f}(b / 4) / 4)",
              "{f}(a) / {f}(b / 2 + 0.3)", "{f}(0.375)", "{f}(abs(a - c) / 8 + 0.1)", "2 ** {f}(b / 3)", "{f}(sin(a) / 2) - 1"]
    for f in funcs:
        for s in shapes:
            out.append(s.format(f=f))
    out += ["Mod(a, 2)", "Mod(a, b)", "Mod(-a, 2)", "Mod(a, -2)", "Mod(-a, -b)", "Mod(a * 8, 3)", "Mod(a + b, 0.5)", "Mod(t, 2)",
            "Mod(a, 2) * 3", "3 * Mod(a, 2)", "-Mod(a, 2)", "b / Mod(a + 0.3, 2)", "Mod(a, 2) / b", "Mod(a, 2) ** 2", "a - Mod(b, 3) * c",
            "-(p * Mod(k, 3))", "(4 - 8) / Mod(t + 0.3, 2)", "Mod(a, 2) + Mod(b, 3)", "Mod(Mod(a * 5, 3), 2)", "Mod(a, 2) - 1",
            "cos(a + (b + (pi + c)))", "sin((a + (pi + b)) + c)", "tan(a / 4 + (b / 8 + (c / 8 + pi)))", "cos(a + (pi + b))", "sin(a - (pi - b))", "cos((a + b) + (c + (k + (pi + p))))", "sin(2 * (pi + a))", "cos(pi + a)", "sin(a + 2 * pi)", "cos(a + (b + (pi / 2 + c)))",
            # nested sums below a negation / product / power inside a function argument
            "cos(-(a + (pi + b)))", "sin(-(a + (pi + b)))", "tan(-(a / 4 + (pi + b / 8)))", "cos((a + (pi + b)) * -1)", "cos(-(a + (pi + b)) + c)", "cos(2 * (a + (pi / 2 + b)))", "sin(-2 * (a + (pi / 2 + b)))",
            "cos(-(-(a + (pi + b))))", "cos((a + (pi + b)) / -1)", "sin(-((a + (pi + b)) + c))", "cos(-(a + (b + (pi + c))))", "exp(-(a + (b + (1.5 + c))))", "cos(-(a - (pi - b)))", "cos(-a - (pi + b))", "cos(-(a + (pi + b)) ** 1)",
            "cos(c * (a + (pi + b)))", "sin(-(a + (pi + b)) / 2)", "cos(abs(-(a + (pi + b))))", "sin(pi - (a + (pi + b)))",
            # quotients whose denominator sympy turns into 1/f(..): a/(1/abs(..)) must keep its parentheses
            "a / abs((0.01 + b) ** (-1/3))", "(a - b) / abs(c ** (-1/2))", "a / abs(b) ** -1", "a / (1 / abs(b))", "a / sqrt(b) ** -1", "a / abs(1 / b) - c / abs(b ** -2)", "k / exp(-a) / abs(b ** (-1/3))",
            # unevaluated constant multiples of pi; real parts introduced by sympy for functions that can be complex
            "sin((a - b) - pi * pi)", "sin(a + 2 * pi * pi)", "cos(a - pi * pi)", "sin(a + pi * pi * pi)", "tan(a / 4 - (b + pi * pi))", "sin(a - pi * 2 * 3)", "cos(a * pi * pi)", "sin(a + pi * 0.5 * 2)",
            "log(abs(exp(sin(log(a - b / 4)))) + 0.5)", "abs(exp(cos(log(c - a)))) * b",
            "log(abs(exp(asin(a / 2))) + 0.5)", "abs(exp(acos(b / 2)))", "abs(exp(atan(a))) * b", "abs(exp(sqrt(c))) - abs(exp(log(a)))",
            "exp(a + (b + (1.5 + c)))", "log(a + (b + (1.5 + c)))", "sqrt(a + (b + (c + 2)))",
            "floor(a * 3) / 2", "floor(-a * 3)", "floor(a) + floor(b)", "a - floor(a)", "floor(a / b)", "abs(a - 2)", "abs(-a) * abs(b - 1)",
            "sqrt(a * a + b * b)", "sqrt(a) * sqrt(b)", "exp(log(a + 1))", "log(exp(a))", "exp(a) * exp(b)", "exp(-a / 6.8)", "exp(2)", "exp(1)", "exp(1) * a",
            "exp(a) ** 2", "sqrt(exp(a))", "sin(a) ** 2 + cos(a) ** 2", "sin(pi * a)", "cos(2 * pi) * a", "tan(a / 4)", "atan(a) * 2 / pi", "pi", "pi * a ** 2", "3 * pi / 2"]
    return out


def conditional_table():
    rel = ["Lt", "Gt", "Le", "Ge", "Eq"]
    out = []
    for r in rel:
        out.append(f"Conditional({r}(a, 1.5), b, c)")
        out.append(f"Conditional({r}(a, b), 1, 0)")
        out.append(f"Conditional(Not({r}(a, 1.5)), b, c)")
        out.append(f"Conditional({r}(t, 1), a, b)")
        out.append(f"Conditional({r}(time, 0.5), a, -a)")
        out.append(f"Conditional({r}(a - b, 0), a / 2, b * 2) + 1")
        out.append(f"2 * Conditional({r}(a * 2, 3), b + 1, c - 1) ** 2")
    for k in (2, 3, 4, 5):
        ops = ["Gt(a, 1)", "Lt(b, 1)", "Ge(c, 2)", "Le(a, b)", "Gt(t, 0.25)"][:k]
        out.append(f"Conditional(And({', '.join(ops)}), a, b)")
        out.append(f"Conditional(Or({', '.join(ops)}), a, b)")
        out.append(f"Conditional(Not(And({', '.join(ops)})), a, b)")
        out.append(f"Conditional(Not(Or({', '.join(ops)})), a, b)")
        out.append(f"Conditional(And({ops[0]}, Or({', '.join(ops[1:] + ['Eq(c, 2)'])})), a, c)")
    out += [
        "Conditional(Gt(a, 1), 1, Conditional(Eq(a, 1), 0.5, 0))",
        "Conditional(Gt(a, 1), 1, Conditional(Lt(a, 1), 0.0, 0.5))",
        "Conditional(Lt(a, 1), Conditional(Lt(b, 1), 1, 2), Conditional(Lt(c, 2), 3, 4))",
        "Conditional(Lt(a, 1), a, Conditional(Lt(a, 2), 2 * a, Conditional(Lt(a, 3), 3 * a, Conditional(Lt(a, 4), 4 * a, 5 * a))))",
        "Conditional(Le(a, b), a, b)", "Conditional(Ge(a, b), a, b)",
        "Conditional(Eq(a, 0), 1, a / (exp(a) - 1))", "Conditional(Eq(a, 1.5), 1, 1 / (a - 1.5))",
        "Conditional(Gt(a, 0), log(abs(a) + 1), 0)", "Conditional(Gt(a, b), sqrt(abs(a - b)), -sqrt(abs(b - a)))",
        "Conditional(Ge(a, 1), 1, 0) * Conditional(Lt(b, 1), 2, 3)", "Conditional(Ge(a, 1), 1, 0) + Conditional(Ge(a, 1), 0, 1)",
        "Conditional(Gt(a, 1), 1, 2) ** 2", "Conditional(Gt(a, 1), 1.0, 2.0) ** -1", "a ** Conditional(Gt(b, 1), 2, 3)", "Conditional(Gt(a, 1), 1, 2) ** -1", "Conditional(Gt(a, 1), 10, 20) ** 20 * 1e-20", "Mod(a, 0.5 / b)", "Mod(a * 3, b / 2) / c",
        "exp(Conditional(Lt(a, 1), -a, a))", "Conditional(Gt(sin(a), 0.5), cos(a), sin(a))",
        "Conditional(And(Gt(a, 1), Lt(a, 2)), 1, 0)", "Conditional(Or(Lt(a, 1), Gt(a, 2)), 1, 0)",
        "Conditional(And(Ge(t, 1), Le(t, 2)), -p, 0)", "Conditional(And(Ge(Mod(t, 2), 1), Le(Mod(t, 2), 1.5)), k, 0)",
        "Conditional(Not(Not(Gt(a, 1))), a, b)", "Conditional(Eq(a, b), 1, 0)", "Conditional(Eq(a * 2, 3), 1, 0)",
        "Conditional(Gt(a + 1, b), a, b)", "Conditional(Gt(2 * a, 3), a, b)", "Conditional(Lt(-a, -1), a, b)",
        "ContinuousConditional(Gt(a, 1), b, c, 1)", "ContinuousConditional(Lt(a, 1), b, c, 0.5)", "ContinuousConditional(Ge(a, b), 1, 0, 2.0)",
        "ContinuousConditional(Le(a - b, 0.5), a, -a, 0.25)", "ContinuousConditional(Gt(t, 1), p, k, 1) * a",
        "Conditional(Or(Lt(a, -0.375), Ge(a, -0.375)), b, c)", "Conditional(Or(Lt(a, -0.375), Gt(b, 5), Ge(a, -0.375), Eq(a, t)), b, a) * 2 + c", "Conditional(And(Lt(a, -0.375), Ge(a, -0.375)), b, c) - a",
        # conditions that are tautologies / contradictions over the reals, nested and inside sums
        "Conditional(Gt(a, 2), t, Conditional(Or(Gt(b, 1.5), Lt(b, 10.0)), 0.1, c)) + 7.5", "Conditional(Or(Gt(b, 1.5), Lt(b, 10.0)), 0.1, c) * a",
        "Conditional(Gt(a, 2), t, Conditional(And(Gt(b, 10.0), Lt(b, 1.5)), 0.1, c)) + 7.5", "1 + Conditional(Lt(a, 1), Conditional(Or(Ge(b, 1), Lt(b, 1)), 2, 3), Conditional(And(Ge(c, 2), Lt(c, 2)), 4, 5))",
        "Conditional(Or(Ge(a, 1.5), Lt(b, 1.5), Lt(c, 10.0)), t, Conditional(Or(Gt(c, 1.5), Lt(c, 10.0)), 0.1, a)) + 7.5",
        # time is a real number like any other: negative times
        "abs(t) * a", "sqrt(t * t) + a", "Conditional(Lt(time, 0), a, b)", "Conditional(Ge(t, 0), a, b) * c", "abs(time - 5) * a", "sqrt(abs(t)) * a", "Conditional(Lt(t, -1), a, Conditional(Gt(t, 1), b, c))", "abs(t * a) - t",
        # far on either side of a sharp switch (|z| > 709: exp overflows in float64, the weight is still 0 or 1)
        "ContinuousConditional(Ge(a, b), 2, 3, 0.0005)", "ContinuousConditional(Ge(b, a), 2, 3, 0.0005)", "ContinuousConditional(Lt(a, b), c, p, 0.0005)", "ContinuousConditional(Lt(b, a), c, p, 0.0005)",
        "ContinuousConditional(Ge(t, c * 5), 1, 0, 0.01) * a", "ContinuousConditional(Le(c * 5, t), 1, 0, 0.01) * a + b", "ContinuousConditional(Gt(a * 1000, b), a, b, 0.5)",
        "ContinuousConditional(Gt(a, -40), b, c, 0.05)", "ContinuousConditional(Lt(a, 40), b, c, 0.05)", "exp(a - 800.0) * exp(800.0 - b)",
    ]
    return out


def literal_table():
    lits = ["0", "1", "7", "10", "100", "1.0", "0.5", ".5", "1.", "3.05", "2.4", "1e-3", "1E-3", "1e3", "1E3", "1.5e+2", "1.5E+2", "2e-2", "2E2",
            "1e-12", "1e300", "1e-300", "1e300 * 1e-300", "123456789012345678901234567890", "0.1", "0.2", "0.3", "0.1 + 0.2",
            "4503599627370497", "9007199254740993", "0.333333333333333333333", "2.718281828459045", "1e22", "1e23", "5e-324", "1.7976931348623157e308",
            "0.30000000000000004", "1234.5678e-2", "00.5" if False else "0.50", "1e0", "1e+0", "1e-0"]
    out = []
    for l in lits:
        out.append(f"a * {l}")
        out.append(f"{l} + b")
    out += ["a * 1e300 * 1e-300", "(a + 1e16) - 1e16", "a * 3 / 3", "a * (1 / 3)", "a / 3", "1 / 4 * a", "(2 * 3) / 4 * a", "2 ** (1/2) * a", "a ** (2/3)", "100000 * 100000 * a", "a + 2147483647 + 1", "7 / 2 + a", "-7 / 2 + a", "7 / -2 + a"]
    return out


def packed_model(exprs, extra_states=("a", "b", "c"), defaults=None, params=None, comps=False):
    """States a, b, c (inputs, trivial dynamics), parameters p, k, one probe state per expression."""
    defaults = defaults or {"a": "1.25", "b": "0.75", "c": "2.0"}
    params = params or {"p": "0.5", "k": "3.0"}
    lines = ["parameters(" + ", ".join(f"{n}={v}" for n, v in params.items()) + ")"]
    sts = [f"{n}={defaults[n]}" for n in extra_states] + [f"q{i}=0.0" for i in range(len(exprs))]
    lines.append("states(" + ", ".join(sts) + ")")
    lines.append("")
    for n in extra_states:
        lines.append(f"d{n}_dt = 0")
    for i, e in enumerate(exprs):
        lines.append(f"dq{i}_dt = {e}")
    return "\n".join(lines) + "\n"


def packed_model_intermediates(exprs):
    """Same probes, but each expression is an intermediate feeding its probe's derivative."""
    lines = ["parameters(p=0.5, k=3.0)", "states(a=1.25, b=0.75, c=2.0, " + ", ".join(f"q{i}=0.0" for i in range(len(exprs))) + ")", ""]
    for i in range(len(exprs)):
        lines.append(f"dq{i}_dt = w{i} * 2 - w{i}")
    for n in "abc":
        lines.append(f"d{n}_dt = 0")
    for i, e in enumerate(exprs):
        lines.append(f"w{i} = {e}")
    return "\n".join(lines) + "\n"


RENAME_TOKENS = {"a": "is_true", "b": "falsetto", "c": "powder", "p": "fabs_p", "k": "truename"}


def rename(text, mapping):
    """The same model with its identifiers renamed (whole words only; derivative names follow)."""
    import re

    if not mapping:
        return text
    for old, new in mapping.items():
        text = re.sub(rf"(?<![\w.]){re.escape(old)}(?![\w(])", new, text)
        text = re.sub(rf"(?<![\w.])d{re.escape(old)}_dt(?![\w(])", f"d{new}_dt", text)
    return text


def chunks(seq, n):
    for i in range(0, len(seq), n):
        yield seq[i : i + n]


def corpus(repo, big=True):
    files = sorted(glob.glob(os.path.join(repo, "tests/odefiles/*.ode")) + glob.glob(os.path.join(repo, "examples/**/*.ode"), recursive=True))
    seen, out = set(), []
    for f in files:
        b = os.path.basename(f)
        try:
            sz = os.path.getsize(f)
        except OSError:
            continue
        key = b
        if key in seen:
            continue
        seen.add(key)
        if not big and sz > 12000:
            continue
        out.append(f)
    return out
