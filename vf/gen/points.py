"""Sample points (t, states, parameters) for a reference model, aiming at decidable points on
both sides of every condition."""
from __future__ import annotations

import math
import random

T_POOL = [0.0, 0.5, 1.0, 2.75, 10.0, 100.125, 0.125, 3.0, 999.5, -1.0, -0.5, -2.75, -100.25]  # time may be negative


def draw_point(rng: random.Random, defaults: dict, names, mode=None):
    mode = mode or rng.choice(["grid", "grid", "dyadic", "scale", "mixed", "log"])
    pt = {}
    for n in names:
        d = defaults.get(n, 0.0)
        m = mode if mode != "mixed" else rng.choice(["grid", "dyadic", "scale", "default"])
        if m == "default":
            v = d
        elif m == "grid":
            v = d + rng.randint(-8, 8) / 8 if rng.random() < 0.6 else d
        elif m == "dyadic":
            v = rng.randint(-64, 64) / 8
        elif m == "scale":
            v = d * (1 + rng.uniform(-0.1, 0.1)) if d else rng.uniform(-0.1, 0.1)
        else:
            v = math.copysign(10 ** rng.uniform(-3, 3), rng.choice([-1, 1]))
        pt[n] = float(v)
    pt["t"] = rng.choice(T_POOL) if rng.random() < 0.8 else round(rng.uniform(-10, 50), 3)
    return pt


def sample(ref, rng, want=8, max_draws=120, focus=None, extra_names=()):
    """-> list of (point, results, decisions); results: name -> Val | Exception.

    Keeps a point if it brings a new branch signature or if fewer than `want` points with at
    least one decidable focus quantity have been kept."""
    from ..refmodel import evalref as E

    defaults = ref.default_point()
    names = list(ref.states) + list(ref.params) + list(extra_names)
    focus = list(focus) if focus is not None else [ref.derivs[s] for s in ref.states if s in ref.derivs]
    kept, sigs = [], set()
    stats = {"draws": 0, "undefined": 0, "undecidable": 0, "illcond": 0, "decidable": 0}
    for k in range(max_draws):
        if k == 0:
            pt = dict(defaults)
            for n in extra_names:
                pt[n] = 0.5
        else:
            pt = draw_point(rng, defaults, names)
        stats["draws"] += 1
        res, dec = ref.evaluate(pt)
        good = 0
        for n in focus:
            r = res.get(n)
            if isinstance(r, E.Undefined):
                stats["undefined"] += 1
            elif isinstance(r, Exception):
                stats["undecidable"] += 1
            elif not E.well_conditioned(r):
                stats["illcond"] += 1
            else:
                good += 1
        if not good:
            continue
        stats["decidable"] += good
        new = dec not in sigs
        if new or len(kept) < want:
            sigs.add(dec)
            kept.append((pt, res, dec))
        if len(kept) >= want and k > 3 * want and not new:
            if len(kept) >= want + 4 or k > max_draws // 2:
                break
    stats["signatures"] = len(sigs)
    stats["kept"] = len(kept)
    return kept, stats
