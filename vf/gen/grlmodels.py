"""Models whose rate expressions exercise the Rush-Larsen linearisation (C06, C07, C14)."""
from __future__ import annotations

import random

from .exprs import ExprGen, Profile

SHAPES = ["linear_k", "neg_inv_tau", "gate", "func", "cond", "ccond", "denominator", "power", "times_inter", "absent", "random", "abs", "affine"]
FUN = ["exp", "sin", "cos", "atan", "tan", "log", "sqrt", "asin", "acos", "abs"]


def rate(rng: random.Random, shape: str, x: str, others, k: str, tau: str, inter: str):
    o = rng.choice(others) if others else "0.5"
    if shape == "linear_k":
        return f"{k} * {x} + {rng.choice(['0.25', o, '1'])}"
    if shape == "neg_inv_tau":
        return rng.choice([f"({o} - {x}) / {tau}", f"-({x} - 0.5) / {tau}", f"-{x} / {tau}", f"(1 - {x}) / ({tau} * 2)"])
    if shape == "gate":
        return f"{inter} * (1 - {x}) - 0.3 * {x}"
    if shape == "func":
        f = rng.choice(FUN)
        arg = {"log": f"{x} * {x} + 1.5", "sqrt": f"{x} * {x} + 0.25", "asin": f"{x} / (abs({x}) + 1.5)", "acos": f"sin({x})", "tan": f"atan({x}) / 2"}.get(f, rng.choice([x, f"{x} / 2", f"-{x} * 0.75", f"{x} - {o}"]))
        return rng.choice([f"{f}({arg})", f"{f}({arg}) - {x}", f"{o} * {f}({arg})"])
    if shape == "cond":
        c = rng.choice(["0.5", "1", "-0.25", "0"])
        return rng.choice([
            f"Conditional(Gt({x}, {c}), -2 * {x}, 3 * {x} * {x})",
            f"Conditional(Lt({x}, {c}), {x} * {o}, -{x}) + 0.1",
            f"Conditional(And(Gt({x}, {c}), Lt({x}, 2)), 1 - {x}, 0.5)",
            f"Conditional(Ge({o}, {c}), -{x} * 1.5, {x} * 0.5)",
        ])
    if shape == "ccond":
        return f"ContinuousConditional(Gt({x}, 0.5), -{x}, {x} * {x}, {rng.choice(['1', '0.5', '2.0'])})"
    if shape == "denominator":
        return rng.choice([f"{k} / ({x} * {x} + 1)", f"1 / ({x} + 3.5)", f"{o} / (abs({x}) + 1.5)", f"2 / (exp({x}) + 1)"])
    if shape == "power":
        return rng.choice([f"{x} ** 2", f"-{x} ** 3", f"{x} ** 2 * {o} - {x}", f"({x} * {x} + 1) ** 0.5", f"{x} ** -2 + {x}"])
    if shape == "times_inter":
        return f"{inter} * {x}"
    if shape == "absent":
        return rng.choice([f"{o} * 0.5", f"sin(t) + {k}", "1.5", f"{inter} - 1"])
    if shape == "abs":
        return rng.choice([f"-abs({x})", f"abs({x} - 0.5) - {x}", f"abs({x}) * {x}"])
    if shape == "affine":
        return f"{k} * {x} - {tau} + {o} * 0.25"
    if shape == "floormod":
        return rng.choice([f"floor({x}) - {x}", f"Mod({x}, 2) - 0.5"])
    return None


def gen_grl_model(rng: random.Random, n_states=None, shapes=None, with_random=True):
    n = n_states or rng.choice([1, 2, 3, 4])
    states = [f"x{i}" for i in range(n)]
    dflt = {s: rng.choice([0.25, 0.75, -0.5, 1.25, 0.125, 2.0, -1.5]) for s in states}
    lines = ["parameters(k=-0.5, tau=2.0, b=0.75)", "states(" + ", ".join(f"{s}={dflt[s]}" for s in states) + ")", ""]
    # an intermediate that depends on every state (it is frozen in the linearisation)
    lines.append("w = 0.5 + " + " + ".join(f"{s} * {s}" for s in states[:2]) + " / 4")
    used = []
    for i, s in enumerate(states):
        sh = (shapes[i] if shapes and i < len(shapes) else rng.choice(SHAPES))
        others = [o for o in states if o != s] + ["b"]
        if sh == "random" and with_random:
            g = ExprGen(rng, [s, s] + others + ["k", "w"], Profile(mod=False, funcs=[f for f in FUN] + ["ln", "Abs"]))
            ex = g.num(rng.choice([2, 3]))
        else:
            ex = rate(rng, sh, s, others, "k", "tau", "w") or f"-{s}"
        used.append(sh)
        lines.append(f"d{s}_dt = {ex}")
    return "\n".join(lines) + "\n", used
