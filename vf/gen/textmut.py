"""Text-level metamorphic edits: statement-order permutations (C10) and comment / layout edits (C17)."""
from __future__ import annotations

import random

from .models import ModelSpec


def blocks(spec: ModelSpec, rng=None):
    """-> list of (kind, comp, [lines]) in canonical order: parameters, states, expressions."""
    rng = rng or random.Random(0)
    out = []

    def decl(name, val, unit, desc):
        if unit is None and desc is None:
            return f"{name}={val}"
        extra = ""
        if unit is not None:
            extra += f', unit="{unit}"'
        if desc is not None:
            extra += f', description="{desc}"'
        return f"{name}=ScalarParam({val}{extra})"

    for kind, items in (("parameters", spec.params), ("states", spec.states)):
        by = {}
        for it in items:
            by.setdefault(it[4], []).append(it)
        for comp, its in by.items():
            out.append((kind, comp, [decl(n, v, u, d) for (n, v, u, d, _) in its]))
    cur = None
    for name, rhs, comp, trailing in spec.assigns:
        if cur is None or cur[1] != comp:
            cur = ("expressions", comp, [])
            out.append(cur)
        cur[2].append(f"{name} = {rhs}" + (f" # {trailing}" if trailing else ""))
    return out


def render_blocks(bl):
    txt = []
    for kind, comp, lines in bl:
        if kind in ("parameters", "states"):
            head = f'{kind}("{comp}",' if comp else f"{kind}("
            txt.append(head + "\n" + ",\n".join("    " + l for l in lines) + "\n)")
        else:
            if comp:
                txt.append(f'expressions("{comp}")')
            txt.append("\n".join(lines))
        txt.append("")
    return "\n".join(txt) + "\n"


def permutations(spec: ModelSpec, rng: random.Random, n=12, split_declarations=False):
    """Yield (label, text, moved_across_use) for permutations the statement promises to be inert."""
    base = blocks(spec)
    if split_declarations:
        # a component's states / parameters written as two blocks (legal in the base text as well)
        nb = []
        for kind, comp, lines in base:
            if kind != "expressions" and len(lines) >= 2:
                k = rng.randint(1, len(lines) - 1)
                nb += [(kind, comp, lines[:k]), (kind, comp, lines[k:])]
            else:
                nb.append((kind, comp, lines))
        base = nb
    yield "identity", render_blocks(base), False

    def legal(bl):
        # the unnamed expressions block must not directly follow a named expressions block
        # (it would be absorbed into it); a declaration block in between separates them
        prev = None
        for kind, comp, _ in bl:
            if kind == "expressions" and comp == "" and prev is not None and prev[0] == "expressions":
                return False
            prev = (kind, comp)
        return True

    def variant(label, fn):
        bl = [(k, c, list(l)) for k, c, l in base]
        bl = fn(bl)
        if legal(bl):
            return label, render_blocks(bl)
        return None

    outs = []
    # full reversal of every expressions block and every declaration block
    outs.append(variant("reverse_lines", lambda bl: [(k, c, list(reversed(l))) for k, c, l in bl]))
    outs.append(variant("reverse_expression_lines", lambda bl: [(k, c, list(reversed(l)) if k == "expressions" else l) for k, c, l in bl]))
    outs.append(variant("reverse_declarations", lambda bl: [(k, c, list(reversed(l)) if k != "expressions" else l) for k, c, l in bl]))
    outs.append(variant("rotate_lines", lambda bl: [(k, c, l[1:] + l[:1]) for k, c, l in bl]))

    def swap_adjacent(bl):
        cands = [i for i, (k, c, l) in enumerate(bl) if len(l) >= 2]
        if cands:
            i = rng.choice(cands)
            j = rng.randrange(len(bl[i][2]) - 1)
            bl[i][2][j], bl[i][2][j + 1] = bl[i][2][j + 1], bl[i][2][j]
        return bl

    outs.append(variant("swap_adjacent", swap_adjacent))
    outs.append(variant("reverse_blocks", lambda bl: list(reversed(bl))))
    outs.append(variant("states_first", lambda bl: sorted(bl, key=lambda b: {"states": 0, "parameters": 1, "expressions": 2}[b[0]])))
    outs.append(variant("expressions_first", lambda bl: sorted(bl, key=lambda b: {"expressions": 0, "states": 1, "parameters": 2}[b[0]] if not (b[0] == "expressions" and b[1] == "") else -1)))

    def shuffle_all(bl):
        rng.shuffle(bl)
        for k, c, l in bl:
            rng.shuffle(l)
        return bl

    for r in range(n):
        outs.append(variant(f"shuffle{r}", shuffle_all))
    seen = set()
    for o in outs:
        if o and o[1] not in seen:
            seen.add(o[1])
            yield o[0], o[1], True


# ------------------------------------------------------------------ C17 edits

COMMENT_TEXTS = [
    "plain words here", "mV", "m m m", "pA*pF**-1", "2", "1e3", "1/0", "2**3", "(", ")", "((", "'", '"', "**", "/", "x = 3", "__import__('os')", "",
    "#", "## double", "# # #", "ångström µm", "a" * 500, "ms**-1 extra words", "dimensionless", "1", "mV # and more", "x" , "None", "lambda", "e", "pi", "E", "t",
]
COMMENT_TEXTS += ["vertical\x0btab", "form\x0cfeed", "file\x1cseparator", "next\x85line", "line\u2028separator parameters(gain=2.0)", "paragraph\u2029separator", "back\\slash \\x \\u \\N", "tab\there"]
COMMENT_TEXTS += ["exported from C:\\models\\cell\\", "see notes\\", "\\", "total ionic current through the membrane of the cell, in uA/cm**2",
                  "the quick brown fox jumps over the lazy dog and keeps on running for a while (see the paper)", "a b c d e f g h i j k l m n o p q r s t u v w x y z a b c d e f g h i j k l m n o p, q"]
HANG_TEXTS = ["9**9**9", "9**9**9**9", "10**10**10", "total ionic current through the membrane of the cell, in uA/cm**2 and some more words; really",
              "a b c d e f g h i j k l m n o p q r s t u v w x y z a b c d e f g h i j k l m n o p, q"]


def layout_lines(spec: ModelSpec):
    """-> list of (role, text) lines; roles: decl_open, decl_entry, decl_close, expr_header, assign, blank"""
    out = []
    for kind, comp, lines in blocks(spec):
        if kind in ("parameters", "states"):
            out.append(("decl_open", f'{kind}("{comp}",' if comp else f"{kind}("))
            for i, l in enumerate(lines):
                out.append(("decl_entry", "    " + l + ("," if i < len(lines) - 1 else "")))
            out.append(("decl_close", ")"))
        else:
            if comp:
                out.append(("expr_header", f'expressions("{comp}")'))
            for l in lines:
                out.append(("assign", l))
        out.append(("blank", ""))
    return out


def join(lines, eol="\n"):
    return eol.join(t for _, t in lines) + eol


def comment_edits(lines, rng: random.Random, texts):
    """Yield (label, text_class, edited_text).  One comment inserted per edit."""
    idx = {r: [i for i, (role, _) in enumerate(lines) if role == r] for r in ("decl_open", "decl_close", "expr_header", "assign", "blank")}
    named_assign = []
    in_named = False
    for i, (role, t) in enumerate(lines):
        if role == "expr_header":
            in_named = True
        elif role in ("decl_open",):
            in_named = False
        elif role == "assign" and in_named:
            named_assign.append(i)
    for tx in texts:
        c = "# " + tx if tx != "" else "#"
        # header
        yield ("header", tx, join([("c", c)] + lines))
        # between blocks
        if idx["blank"]:
            i = rng.choice(idx["blank"][:-1] or idx["blank"])
            yield ("between_blocks", tx, join(lines[: i + 1] + [("c", c)] + lines[i + 1 :]))
        # directly after the expressions("C") line
        if idx["expr_header"]:
            i = rng.choice(idx["expr_header"])
            yield ("after_expressions_header", tx, join(lines[: i + 1] + [("c", c)] + lines[i + 1 :]))
        # between two assignments of a named expressions block
        pairs = [i for i in named_assign if i + 1 in named_assign]
        if pairs:
            i = rng.choice(pairs)
            yield ("inside_named_block", tx, join(lines[: i + 1] + [("c", c)] + lines[i + 1 :]))
        # trailing an assignment (not the last line of its block, and the last line of the file)
        cand = [i for i in idx["assign"] if "#" not in lines[i][1]]
        if cand:
            i = rng.choice(cand)
            yield ("trailing_assignment", tx, join(lines[:i] + [("assign", lines[i][1] + " " + c)] + lines[i + 1 :]))
        # trailing a declaration block
        if idx["decl_close"]:
            i = rng.choice(idx["decl_close"])
            yield ("trailing_declaration_block", tx, join(lines[:i] + [("decl_close", ") " + c)] + lines[i + 1 :]))
        # last line of the file
        yield ("end_of_file", tx, join(lines).rstrip("\n") + "\n" + c)


def layout_edits(lines, rng: random.Random):
    yield ("crlf", "layout", join(lines, "\r\n"))
    yield ("trailing_whitespace", "layout", join([(r, t + "   ") for r, t in lines]))
    yield ("indent_assignments", "layout", join([(r, ("    " + t) if r == "assign" else t) for r, t in lines]))
    yield ("tabs", "layout", join([(r, ("\t" + t) if r in ("assign", "decl_entry") else t) for r, t in lines]))
    yield ("extra_blank_lines", "layout", join([x for r, t in lines for x in ((r, t), ("blank", ""))]))
    yield ("no_blank_lines", "layout", join([(r, t) for r, t in lines if r != "blank"]))
    yield ("no_final_newline", "layout", join(lines).rstrip("\n"))
    yield ("spaces_around_operators", "layout", join([(r, t.replace("=", " = ", 1).replace("*", " * ") if r == "assign" and "**" not in t else t) for r, t in lines]))
    # line continuation inside parentheses
    out = []
    for r, t in lines:
        if r == "assign" and "(" in t and "#" not in t:
            k = t.index("(")
            out.append((r, t[: k + 1] + "\n        " + t[k + 1 :]))
        else:
            out.append((r, t))
    yield ("continuation_inside_parentheses", "layout", join(out))
    yield ("declarations_on_one_line", "layout", _one_line_decls(lines))
    # a line holding only blanks / a tab between two assignments of a block
    assigns = [i for i, (r, t) in enumerate(lines) if r == "assign" and i + 1 < len(lines) and lines[i + 1][0] == "assign"]
    if assigns:
        i = rng.choice(assigns)
        yield ("blank_line_inside_block", "layout", join(lines[: i + 1] + [("blank", "")] + lines[i + 1 :]))
        yield ("spaces_only_line_inside_block", "layout", join(lines[: i + 1] + [("blank", "   ")] + lines[i + 1 :]))
        yield ("tab_only_line_inside_block", "layout", join(lines[: i + 1] + [("blank", "\t")] + lines[i + 1 :]))
    # line breaks inside parentheses after an operator and after an operand
    import re as _re

    for label, pat, rep in (("break_after_operator_in_parentheses", r"\(([^()]*?) ([-+*/]) ", r"(\1 \2\n        "), ("break_after_operand_in_parentheses", r"\(([^()]*?) ([-+*/]) ", r"(\1\n        \2 ")):
        out, done = [], False
        for r, t in lines:
            if r == "assign" and not done and "#" not in t and _re.search(pat, t):
                out.append((r, _re.sub(pat, rep, t, count=1)))
                done = True
            else:
                out.append((r, t))
        if done:
            yield (label, "layout", join(out))


def _one_line_decls(lines):
    out, cur = [], None
    for r, t in lines:
        if r == "decl_open":
            cur = t
        elif r == "decl_entry":
            cur += " " + t.strip()
        elif r == "decl_close":
            out.append(cur + ")")
            cur = None
        else:
            out.append(t)
    return "\n".join(out) + "\n"


UNITS_EDIT = ["mV", "ms**-1", "pA*pF**-1", "1", "furlongs_per_fortnight", "m m m", "**", "(", "1/0", "", "mV extra words", "µm", "uA*uF**-1", "2", "None", "\\uV", "m\\xb2"]
DESCS_EDIT = ["plain", "with, comma", "with (parens)", "semi; colon: etc.", "x = 3", "# hash", "", "ünïcödé", "a" * 200, "the \\xi gate", "rate \\upsilon_b", "C:\\users\\new\\x", "\\N{DEGREE SIGN}C", "back\\\\slash", "tab\\t newline\\n"]


def annotation_edits(spec: ModelSpec, rng: random.Random):
    """Change / add / remove unit and description annotations of declarations; unit comments of assignments."""
    for u in UNITS_EDIT:
        m = ModelSpec()
        m.states = [(n, v, u, d, c) for (n, v, _, d, c) in spec.states]
        m.params = list(spec.params)
        m.assigns = list(spec.assigns)
        yield ("state_unit", u, render_blocks(blocks(m)))
        m = ModelSpec()
        m.states = list(spec.states)
        m.params = [(n, v, u, "d", c) for (n, v, _, d, c) in spec.params]
        m.assigns = list(spec.assigns)
        if m.params:
            yield ("parameter_unit", u, render_blocks(blocks(m)))
    for dsc in DESCS_EDIT:
        m = ModelSpec()
        m.states = [(n, v, u, dsc, c) for (n, v, u, _, c) in spec.states]
        m.params = list(spec.params)
        m.assigns = list(spec.assigns)
        yield ("state_description", dsc, render_blocks(blocks(m)))
    m = ModelSpec()
    m.states = [(n, v, None, None, c) for (n, v, _, _, c) in spec.states]
    m.params = [(n, v, None, None, c) for (n, v, _, _, c) in spec.params]
    m.assigns = [(n, r, c, None) for (n, r, c, _) in spec.assigns]
    yield ("all_annotations_removed", "", render_blocks(blocks(m)))
