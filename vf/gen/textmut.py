"""Text-level metamorphic edits: statement-order permutations (C10) and comment / layout edits (C17)."""
from __future__ import annotations

import random

from .models import ModelSpec


def blocks(spec: ModelSpec, rng=None):
    """-> list of (kind, comp, [lines]) in canonical order: parameters, states, expressions."""
    rng = rng or random.Random(0)
    out = []

    def decl(name, val, unit, desc):
        if unit is None and desc is None:
            return f"{name}={val}"
        extra = ""
        if unit is not None:
            extra += f', unit="{unit}"'
        if desc is not None:
            extra += f', description="{desc}"'
        return f"{name}=ScalarParam({val}{extra})"

    for kind, items in (("parameters", spec.params), ("states", spec.states)):
        by = {}
        for it in items:
            by.setdefault(it[4], []).append(it)
        for comp, its in by.items():
            out.append((kind, comp, [decl(n, v, u, d) for (n, v, u, d, _) in its]))
    cur = None
    for name, rhs, comp, trailing in spec.assigns:
        if cur is None or cur[1] != comp:
            cur = ("expressions", comp, [])
            out.append(cur)
        cur[2].append(f"{name} = {rhs}" + (f" # {trailing}" if trailing else ""))
    return out


def render_blocks(bl):
    txt = []
    for kind, comp, lines in bl:
        if kind in ("parameters", "states"):
            head = f'{kind}("{comp}",' if comp else f"{kind}("
            txt.append(head + "\n" + ",\n".join("    " + l for l in lines) + "\n)")
        else:
            if comp:
                txt.append(f'expressions("{comp}")')
            txt.append("\n".join(lines))
        txt.append("")
    return "\n".join(txt) + "\n"


def permutations(spec: ModelSpec, rng: random.Random, n=12):
    """Yield (label, text, moved_across_use) for permutations the statement promises to be inert."""
    base = blocks(spec)
    yield "identity", render_blocks(base), False

    def legal(bl):
        # the unnamed expressions block must not directly follow a named expressions block
        # (it would be absorbed into it); a declaration block in between separates them
        prev = None
        for kind, comp, _ in bl:
            if kind == "expressions" and comp == "" and prev is not None and prev[0] == "expressions":
                return False
            prev = (kind, comp)
        return True

    def variant(label, fn):
        bl = [(k, c, list(l)) for k, c, l in base]
        bl = fn(bl)
        if legal(bl):
            return label, render_blocks(bl)
        return None

    outs = []
    # full reversal of every expressions block and every declaration block
    outs.append(variant("reverse_lines", lambda bl: [(k, c, list(reversed(l))) for k, c, l in bl]))
    outs.append(variant("reverse_expression_lines", lambda bl: [(k, c, list(reversed(l)) if k == "expressions" else l) for k, c, l in bl]))
    outs.append(variant("reverse_declarations", lambda bl: [(k, c, list(reversed(l)) if k != "expressions" else l) for k, c, l in bl]))
    outs.append(variant("rotate_lines", lambda bl: [(k, c, l[1:] + l[:1]) for k, c, l in bl]))

    def swap_adjacent(bl):
        cands = [i for i, (k, c, l) in enumerate(bl) if len(l) >= 2]
        if cands:
            i = rng.choice(cands)
            j = rng.randrange(len(bl[i][2]) - 1)
            bl[i][2][j], bl[i][2][j + 1] = bl[i][2][j + 1], bl[i][2][j]
        return bl

    outs.append(variant("swap_adjacent", swap_adjacent))
    outs.append(variant("reverse_blocks", lambda bl: list(reversed(bl))))
    outs.append(variant("states_first", lambda bl: sorted(bl, key=lambda b: {"states": 0, "parameters": 1, "expressions": 2}[b[0]])))
    outs.append(variant("expressions_first", lambda bl: sorted(bl, key=lambda b: {"expressions": 0, "states": 1, "parameters": 2}[b[0]] if not (b[0] == "expressions" and b[1] == "") else -1)))

    def shuffle_all(bl):
        rng.shuffle(bl)
        for k, c, l in bl:
            rng.shuffle(l)
        return bl

    for r in range(n):
        outs.append(variant(f"shuffle{r}", shuffle_all))
    seen = set()
    for o in outs:
        if o and o[1] not in seen:
            seen.add(o[1])
            yield o[0], o[1], True


# ------------------------------------------------------------------ C17 edits

COMMENT_TEXTS = [
    "plain words here", "mV", "m m m", "pA*pF**-1", "2", "1e3", "1/0", "2**3", "(", ")", "((", "'", '"', "**", "/", "x = 3", "__import__('os')", "",
    "#", "## double", "# # #", "ångström µm", "a" * 500, "ms**-1 extra words", "dimensionless", "1", "mV # and more", "x" , "None", "lambda", "e", "pi", "E", "t",
]
HANG_TEXTS = ["9**9**9", "9**9**9**9", "10**10**10"]
