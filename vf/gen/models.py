"""Random well-formed .ode models: DAG shapes, components, declaration spellings, renderer."""
from __future__ import annotations

import ast
import hashlib
import random
import re

from ..refmodel import evalref as E
from ..refmodel.model import RefModel
from .exprs import ExprGen, Profile

STATE_POOL = ["x", "y", "z", "V", "m", "h", "n", "u", "w", "Ca", "s0", "s1", "s2", "s3", "x_1", "m_gate", "q2", "Na_i", "cai", "X"]
PARAM_POOL = ["a", "b", "c", "k", "g", "tau", "p0", "p1", "p2", "p3", "g_Na", "E_K", "rho", "sigma", "k1", "k_2", "Cm", "amp", "A", "B"]
TRAP_STATES = ["x_dt", "d", "dx", "aa", "a1", "a_"]
COMP_POOL = ["membrane", "Na channel", "gate", "calcium", "K", "main", "aux", "buffer 2"]
UNITS = ["mV", "ms", "mM", "uA", "1", "pA*pF**-1", "ms**-1", None, None, None]
DESCS = ["", "a description", "Info about it", None, None, None]
_DERIV = re.compile(r"^d\w+_dt$")


def fmt_value(rng, v: float) -> str:
    """Spell a numeric default in one of the documented ways."""
    r = rng.random()
    if float(v).is_integer() and r < 0.4:
        return str(int(v))
    if r < 0.75:
        return repr(float(v))
    if r < 0.9:
        s = f"{v:e}"
        m, ex = s.split("e")
        m = m.rstrip("0").rstrip(".") if "." in m else m
        ex = int(ex)
        return f"{m}{rng.choice(['e', 'E'])}{ex}" if m not in ("", "-") else repr(float(v))
    return repr(float(v))


def draw_default(rng, positive=False):
    r = rng.random()
    if r < 0.5:
        v = rng.randint(-16, 16) / 8
    elif r < 0.8:
        v = round(rng.uniform(-3, 3), 2)
    elif r < 0.9:
        v = rng.choice([1e-3, 12.0, 0.01, 100.0, -87.0, 2.4, 5.0e-2])
    else:
        v = float(rng.randint(-5, 5))
    if positive:
        v = abs(v) or 0.5
    return v


class ModelSpec:
    def __init__(self):
        self.states = []  # (name, value_text, unit, desc, comp)
        self.params = []
        self.assigns = []  # (name, rhs, comp, trailing) in *text* order
        self.layout = "grouped"
        self.meta = {}

    def render(self, rng=None) -> str:
        rng = rng or random.Random(0)
        out = []
        if self.meta.get("header_comment"):
            out.append("# " + self.meta["header_comment"])

        def decl(name, val, unit, desc):
            if unit is None and desc is None:
                return f"{name}={val}" if rng.random() < 0.5 else f"{name} = {val}"
            extra = ""
            if unit is not None:
                extra += f', unit="{unit}"'
            if desc is not None:
                extra += f', description="{desc}"'
            return f"{name}=ScalarParam({val}{extra})"

        def block(kind, items):
            by = {}
            for it in items:
                by.setdefault(it[4], []).append(it)
            for comp, its in by.items():
                head = f'{kind}("{comp}", ' if comp else f"{kind}("
                ents = [decl(n, v, u, d) for (n, v, u, d, _) in its]
                if len(ents) > 2 or rng.random() < 0.5:
                    out.append(head.rstrip() + "\n" + ",\n".join("    " + e for e in ents) + "\n)")
                else:
                    out.append(head + ", ".join(ents) + ")")

        if self.params:
            block("parameters", self.params)
        block("states", self.states)
        out.append("")
        cur = None
        for name, rhs, comp, trailing in self.assigns:
            if comp != cur:
                if comp:
                    kw = "expressions" if rng.random() < 0.8 else "component"
                    out.append(f'\n{kw}("{comp}")')
                elif cur is not None:
                    raise ValueError("unnamed assignments must come first")
                cur = comp
            line = f"{name} = {rhs}"
            if trailing:
                line += f" # {trailing}"
            out.append(line)
        return "\n".join(out) + "\n"


def constant_subtrees_defined(text_rhs: str) -> bool:
    """Reject expressions with an input-independent undefined (or undecidable) subtree."""
    try:
        node, src = E.parse_expr(text_rhs)
    except E.Unsupported:
        return False

    func_nodes = {id(c.func) for c in ast.walk(node) if isinstance(c, ast.Call)}

    def is_const(n):
        return all(k.id == "pi" or id(k) in func_nodes for k in ast.walk(n) if isinstance(k, ast.Name))

    ev = E.Evaluator({}, {}, {})

    def const_branches(n):
        """constant branches of a (nested) Conditional standing directly as an operand"""
        if isinstance(n, ast.Call) and isinstance(n.func, ast.Name) and n.func.id == "Conditional" and len(n.args) == 3:
            out = []
            for br in n.args[1:]:
                if is_const(br) and not (isinstance(br, ast.Call) and getattr(br.func, "id", "") == "Conditional"):
                    out.append(br)
                else:
                    out += const_branches(br)
            return out
        if isinstance(n, ast.UnaryOp):
            return [ast.UnaryOp(op=n.op, operand=b) for b in const_branches(n.operand)]
        return []

    def branch_applications_defined(n):
        """f(Conditional(c, const, x)) / Conditional(...)**k / a / Conditional(...): sympy applies the operation to the
        constant branch when the expression is built (sqrt(-0.5) -> 0.707*I); such dead-branch constants are not generated."""
        trials = []
        if isinstance(n, ast.Call) and isinstance(n.func, ast.Name) and n.func.id in E._FUNCS and n.args:
            for k, a in enumerate(n.args):
                for b in const_branches(a):
                    args = list(n.args)
                    args[k] = b
                    if all(is_const(x) for x in args):
                        trials.append(ast.Call(func=n.func, args=args, keywords=[]))
        if isinstance(n, ast.BinOp) and isinstance(n.op, (ast.Pow, ast.Div)):
            for b in const_branches(n.left):
                if is_const(n.right):
                    trials.append(ast.BinOp(left=b, op=n.op, right=n.right))
            for b in const_branches(n.right):
                if is_const(n.left):
                    trials.append(ast.BinOp(left=n.left, op=n.op, right=b))
        for t in trials:
            try:
                node2, src2 = E.parse_expr(ast.unparse(ast.fix_missing_locations(t)))
                E.Evaluator({}, {}, {}).expr(node2, src2)
            except (E.Undefined, E.Undecidable):
                return False
            except E.Unsupported:
                return False
        return True

    def visit(n):
        if not branch_applications_defined(n):
            return False
        if isinstance(n, ast.Call) and isinstance(n.func, ast.Name) and n.func.id in ("Lt", "Gt", "Le", "Ge", "Eq", "Not", "And", "Or"):
            if is_const(n):
                return False  # constant conditions are folded by sympy; not generated
            return all(visit(a) for a in n.args)
        if isinstance(n, (ast.BinOp, ast.UnaryOp, ast.Call)) and is_const(n):
            try:
                ev.expr(n, src)
            except (E.Undefined, E.Undecidable):
                return False
            except E.Unsupported:
                return False
            return True
        return all(visit(c) for c in ast.iter_child_nodes(n) if not isinstance(c, (ast.operator, ast.unaryop, ast.expr_context)) and id(c) not in func_nodes)

    return visit(node.body)


def gen_model(rng: random.Random, profile: Profile | None = None, **knobs) -> ModelSpec:
    p = profile or Profile()
    n_states = knobs.get("n_states") or rng.choice([1, 1, 2, 2, 3, 3, 4, 5, 6, 8])
    n_params = knobs.get("n_params", rng.choice([0, 1, 2, 3, 4, 6, 8]))
    n_inter = knobs.get("n_inter", rng.choice([0, 1, 2, 3, 5, 8, 12, 20]))
    n_comp = knobs.get("n_comp", rng.choice([1, 1, 1, 2, 3, 4]))
    depth = knobs.get("depth", 3)
    shape = knobs.get("shape", rng.choice(["random", "random", "chain", "diamond", "fan", "unused"]))
    use_before_def = knobs.get("shuffle", rng.random() < 0.5)

    spool = STATE_POOL + (TRAP_STATES if knobs.get("traps", rng.random() < 0.15) else [])
    snames = rng.sample(spool, n_states)
    pnames = rng.sample([n for n in PARAM_POOL if n not in snames], n_params)
    inames = []
    k = 0
    while len(inames) < n_inter:
        cand = rng.choice(["i", "I_", "alpha_", "beta", "tmp", "r", "f"]) + str(k)
        k += 1
        if cand not in snames and cand not in pnames and not _DERIV.match(cand):
            inames.append(cand)
    comps = [""] if n_comp == 1 and rng.random() < 0.6 else rng.sample(COMP_POOL, n_comp)
    if n_comp > 1 and knobs.get("mixed_unnamed", rng.random() < 0.25):
        comps[0] = ""  # the default (unnamed) component next to named ones
    comp_of = {}
    spec = ModelSpec()
    spec.meta.update(shape=shape, shuffle=use_before_def, n_comp=len(comps))
    defaults = {}
    for n in snames:
        v = draw_default(rng)
        defaults[n] = v
        c = rng.choice(comps)
        comp_of[n] = c
        rich = rng.random() < 0.3
        spec.states.append((n, fmt_value(rng, v), rng.choice(UNITS) if rich else None, rng.choice(DESCS) if rich else None, c))
    for n in pnames:
        v = draw_default(rng, positive=rng.random() < 0.6)
        defaults[n] = v
        c = rng.choice(comps)
        comp_of[n] = c
        rich = rng.random() < 0.3
        vt = fmt_value(rng, v)
        if knobs.get("param_exprs", rng.random() < 0.15):
            # value written as an expression with the same value where that is exact
            if float(v * 2).is_integer() and rng.random() < 0.7:
                vt = rng.choice([f"{int(v*2)}/2", f"{int(v*2)}*0.5", f"({int(v*2)} + 0)/2"])
                vt = vt.replace("--", "- -")
        spec.params.append((n, vt, rng.choice(UNITS) if rich else None, rng.choice(DESCS) if rich else None, c))
    defaults["t"] = 0.5

    # value oracle at the defaults for generation-time decisions
    defs_text = {}

    def valuer(text):
        try:
            node, src = E.parse_expr(text)
        except E.Unsupported:
            return None
        inputs = {k: E.val_from_float(v) for k, v in defaults.items()}
        inputs["time"] = inputs["t"]
        parsed = {}
        srcs = {}
        for n, tx in defs_text.items():
            parsed[n], srcs[n] = E.parse_expr(tx)
        ev = E.Evaluator(inputs, parsed, srcs)
        try:
            return float(ev.expr(node, src).v)
        except (E.Undefined, E.Undecidable, E.Unsupported, E.IllFormed, OverflowError):
            return None

    def make_expr(names, d, must_use=None):
        g = ExprGen(rng, names, p, valuer)
        for attempt in range(12):
            dd = d if attempt < 8 else max(1, d - 1)
            tx = g.num(dd)
            if must_use:
                mu = [m for m in must_use]
                for m in mu:
                    if not re.search(rf"\b{re.escape(m)}\b", tx):
                        tx = f"{tx} {rng.choice(['+', '-', '*'])} {m}"
            if len(tx) > 600:
                continue
            if not constant_subtrees_defined(tx):
                continue
            if valuer(tx) is None:
                continue
            return tx
        base = rng.choice(names) if names else "1.5"
        tx = f"{base} * 0.5"
        if must_use:
            tx += "".join(f" + {m}" for m in must_use)
        return tx

    avail = list(snames) + list(pnames)
    order = []
    for j, n in enumerate(inames):
        if shape == "chain" and j > 0:
            names, must = avail[: len(snames)] + pnames, [inames[j - 1]]
        elif shape == "diamond" and j >= 2:
            names, must = avail, rng.sample(inames[:j], 2)
        elif shape == "fan" and j > 0:
            names, must = avail + inames[:1], []
        elif shape == "unused":
            names, must = avail + ([inames[j - 1]] if j and rng.random() < 0.5 else []), []
        else:
            names, must = avail + inames[:j], []
        d = 1 if shape in ("chain", "diamond") and n_inter > 10 else rng.randint(1, depth)
        tx = make_expr(names, d, must)
        defs_text[n] = tx
        comp_of[n] = rng.choice(comps)
        order.append(n)
    used_pool = list(snames) + list(pnames)
    if shape == "unused":
        ipool = inames[: max(1, len(inames) // 2)] if inames else []
    elif shape == "chain" and inames:
        ipool = [inames[-1]]
    else:
        ipool = list(inames)
    for s in snames:
        names = used_pool + ipool
        must = [rng.choice(ipool)] if ipool and rng.random() < 0.7 else []
        tx = make_expr(names, rng.randint(1, depth), must)
        dn = f"d{s}_dt"
        defs_text[dn] = tx
        comp_of[dn] = comp_of[s]
        order.append(dn)

    if knobs.get("ref_derivs"):
        # an extra intermediate per state that reads the state's derivative (legal: derivatives are assignments)
        for j, s_ in enumerate(snames[: 2]):
            nm = f"rate_of_{j}"
            defs_text[nm] = f"0.1 * d{s_}_dt + {rng.choice(['0.5', '1', '0.25'])}"
            comp_of[nm] = rng.choice(comps)
            order.append(nm)
    if use_before_def:
        rng.shuffle(order)
    # text order: unnamed component first, then one block per component (stable)
    corder = sorted(set(comp_of[n] for n in order), key=lambda c: (c != "", comps.index(c)))
    for c in corder:
        for n in order:
            if comp_of[n] == c:
                trailing = None
                if rng.random() < 0.08:
                    trailing = rng.choice(["mV", "ms**-1", "a plain remark", "uA"])
                spec.assigns.append((n, defs_text[n], c, trailing))
    spec.meta["defaults"] = defaults
    return spec


def structural_hash(text: str) -> str:
    """Hash of the model with names alpha-renamed in order of first appearance."""
    toks = re.findall(r"[A-Za-z_][A-Za-z_0-9]*|\d+\.?\d*(?:[eE][-+]?\d+)?|\S", text)
    keep = {"parameters", "states", "expressions", "component", "ScalarParam", "unit", "description", "Conditional", "ContinuousConditional", "Lt", "Gt", "Le", "Ge", "Eq", "Not", "And", "Or", "pi", "t", "time", "exp", "cos", "sin", "tan", "acos", "asin", "atan", "log", "ln", "sqrt", "abs", "Abs", "floor", "Mod"}
    ren = {}
    out = []
    for tk in toks:
        if tk[0].isalpha() or tk[0] == "_":
            if tk in keep:
                out.append(tk)
            else:
                out.append(ren.setdefault(tk, f"v{len(ren)}"))
        else:
            out.append(tk)
    return hashlib.sha256(" ".join(out).encode()).hexdigest()[:16]


def features(text: str) -> dict:
    """Construct counters of a model text (for evidence and for known-finding matchers)."""
    f = {"funcs": {}, "ops": {}, "bool_arity": {}, "max_depth": 0, "n_assign": 0}
    try:
        m = RefModel.from_text(text)
    except E.Unsupported:
        return f
    f["n_assign"] = len(m.assigns)
    f["dag_depth"] = m.depth() if not m.cycle() else -1
    for n, node in m._parsed.items():
        def walk(nd, d):
            f["max_depth"] = max(f["max_depth"], d)
            if isinstance(nd, ast.Call) and isinstance(nd.func, ast.Name):
                f["funcs"][nd.func.id] = f["funcs"].get(nd.func.id, 0) + 1
                if nd.func.id in ("And", "Or"):
                    k = f"{nd.func.id}{len(nd.args)}"
                    f["bool_arity"][k] = f["bool_arity"].get(k, 0) + 1
                for a in nd.args:
                    walk(a, d + 1)
                return
            if isinstance(nd, ast.BinOp):
                k = type(nd.op).__name__
                f["ops"][k] = f["ops"].get(k, 0) + 1
            if isinstance(nd, ast.UnaryOp):
                k = type(nd.op).__name__
                f["ops"][k] = f["ops"].get(k, 0) + 1
            for c in ast.iter_child_nodes(nd):
                if isinstance(c, ast.expr):
                    walk(c, d + 1)
        walk(node.body, 0)
    return f


def repeat_helper(ms):
    """A helper definition repeated verbatim in the first two named components (accepted by the loader) and used in
    both.  -> True if the model has two named components."""
    comps = []
    for a in ms.assigns:
        if a[2] and a[2] not in comps:
            comps.append(a[2])
    if len(comps) < 2:
        return False
    new, done = [], set()
    for (n_, r_, c_, t_) in ms.assigns:
        if c_ in comps[:2] and c_ not in done:
            done.add(c_)
            new.append(("RTF_h", "8.314 * 310.0 / 96.485", c_, None))
            new.append((n_, f"({r_}) + RTF_h * 0.001", c_, t_))
        else:
            new.append((n_, r_, c_, t_))
    ms.assigns = new
    return True
