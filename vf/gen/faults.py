"""C08 fault catalogue: single well-formedness faults injected at every site of a seed model."""
from __future__ import annotations

import copy
import random
import re

from .models import ModelSpec


def _names_in(rhs):
    return set(re.findall(r"[A-Za-z_][A-Za-z_0-9]*", rhs))


def clone(spec: ModelSpec) -> ModelSpec:
    s = ModelSpec()
    s.states = list(spec.states)
    s.params = list(spec.params)
    s.assigns = list(spec.assigns)
    s.meta = dict(spec.meta)
    return s


def _insert(assigns, item, near_index, where):
    """Insert keeping component blocks contiguous: same component -> next to the original;
    other component -> at the end of that component's block (or a new block at the end)."""
    out = list(assigns)
    comp = item[2]
    if where in ("before", "after") and out[near_index][2] == comp:
        out.insert(near_index + (1 if where == "after" else 0), item)
        return out
    idx = [k for k, a in enumerate(out) if a[2] == comp]
    if idx:
        out.insert(idx[-1] + 1, item)
    elif comp == "":
        out.insert(0, item)
    else:
        out.append(item)
    return out


def other_component(spec, comp):
    comps = []
    for x in spec.states + spec.params:
        if x[4] not in comps:
            comps.append(x[4])
    for a in spec.assigns:
        if a[2] not in comps:
            comps.append(a[2])
    for c in comps:
        if c != comp and c != "":
            return c
    return "other comp"


def catalogue(spec: ModelSpec, rng: random.Random):
    """Yield (kind, site, placement, mutated_spec, note).  Every fault at every applicable site."""
    states = [s[0] for s in spec.states]
    params = [p[0] for p in spec.params]
    derivs = {f"d{s}_dt": s for s in states}
    all_names = set(states) | set(params) | {a[0] for a in spec.assigns}
    fresh = "zz_new"
    while fresh in all_names:
        fresh += "_"

    for k, (name, rhs, comp, tr) in enumerate(spec.assigns):
        kind0 = "derivative" if name in derivs else "intermediate"
        deps = _names_in(rhs) & all_names
        other_dep = next((n for n in list(params) + list(states) if n not in deps and n != name), None)
        variants = [("same_deps", f"({rhs}) * 2 + 1")]
        if other_dep:
            variants.append(("diff_deps", f"({rhs}) + {other_dep} + 0.5"))
        if not deps:
            variants.append(("consts", f"{rhs} + 2"))
        else:
            variants.append(("const_vs_expr", "3.25"))
        for vn, new_rhs in variants:
            for where in ("before", "after"):
                m = clone(spec)
                m.assigns = _insert(m.assigns, (name, new_rhs, comp, None), k, where)
                yield (f"dup_{kind0}:{vn}", kind0, f"{where}/same_comp", m, name)
            if comp and spec.assigns[-1][2] != comp:
                # the same component written as two blocks: the second definition sits in the later block
                m = clone(spec)
                m.assigns = list(m.assigns) + [(name, new_rhs, comp, None)]
                yield (f"dup_{kind0}:{vn}", kind0, "other_block/same_comp", m, name)
            elif comp and k + 1 < len(spec.assigns):
                # ... or the later block follows a block of another component that is opened just for that
                m = clone(spec)
                m.assigns = list(m.assigns) + [("zz_block_separator", "0.5", "separator comp", None), (name, new_rhs, comp, None)]
                yield (f"dup_{kind0}:{vn}", kind0, "other_block/same_comp", m, name)
            m = clone(spec)
            oc = other_component(spec, comp)
            if kind0 == "intermediate":
                m.assigns = _insert(m.assigns, (name, new_rhs, oc, None), k, "other")
                yield (f"dup_{kind0}:{vn}", kind0, "other_comp", m, name)
        # benign: verbatim repetition
        m = clone(spec)
        m.assigns = _insert(m.assigns, (name, rhs, comp, None), k, "after")
        yield ("benign_verbatim_duplicate", kind0, "after/same_comp", m, name)
        # self cycle
        if kind0 == "intermediate":
            m = clone(spec)
            m.assigns[k] = (name, f"({rhs}) + {name} * 0.5", comp, tr)
            yield ("cycle:self", kind0, "in_place", m, name)
        # undefined symbol: one reference renamed to a fresh name
        for dep in sorted(deps)[:2]:
            m = clone(spec)
            m.assigns[k] = (name, re.sub(rf"\b{re.escape(dep)}\b", fresh, rhs, count=1), comp, tr)
            yield ("undefined:renamed_reference", kind0, "in_place", m, dep)

    inter = [(k, a) for k, a in enumerate(spec.assigns) if a[0] not in derivs]
    # 2-cycles and longer cycles through intermediates
    for (k1, a1), (k2, a2) in zip(inter, inter[1:]):
        m = clone(spec)
        m.assigns[k1] = (a1[0], f"({a1[1]}) + {a2[0]}", a1[2], a1[3])
        m.assigns[k2] = (a2[0], f"({a2[1]}) - {a1[0]}", a2[2], a2[3])
        yield ("cycle:two", "intermediate", "in_place", m, a1[0])
    if len(inter) >= 3:
        m = clone(spec)
        ks = inter[:4]
        for j, (k, a) in enumerate(ks):
            nxt = ks[(j + 1) % len(ks)][1][0]
            m.assigns[k] = (a[0], f"({a[1]}) + {nxt} * 0.25", a[2], a[3])
        yield (f"cycle:chain{len(ks)}", "intermediate", "in_place", m, ks[0][1][0])
    # deleting a used intermediate / parameter
    used = set()
    for a in spec.assigns:
        used |= _names_in(a[1])
    for k, a in inter:
        if a[0] in used:
            m = clone(spec)
            del m.assigns[k]
            yield ("undefined:deleted_intermediate", "intermediate", "removed", m, a[0])
    for k, p in enumerate(spec.params):
        if p[0] in used and len(spec.params) > 1:
            m = clone(spec)
            del m.params[k]
            yield ("undefined:deleted_parameter", "parameter", "removed", m, p[0])

    # declarations
    for kindname, items, attr in (("state", spec.states, "states"), ("parameter", spec.params, "params")):
        for k, (n, v, u, d, c) in enumerate(items):
            for where, comp2 in (("same_block", c), ("other_comp", other_component(spec, c))):
                m = clone(spec)
                lst = list(getattr(m, attr))
                lst.insert(k + 1, (n, f"({v}) + 1.5", None, None, comp2))
                setattr(m, attr, lst)
                yield (f"dup_{kindname}_decl:different_value", kindname, where, m, n)
            m = clone(spec)
            lst = list(getattr(m, attr))
            lst.insert(k + 1, (n, v, u, d, c))
            setattr(m, attr, lst)
            yield (f"benign_verbatim_duplicate_decl", kindname, "same_block", m, n)
    # kind clashes
    for k, (n, v, u, d, c) in enumerate(spec.states):
        for tag, val in (("equal_value", v), ("different_value", f"({v}) + 2.5")):
            m = clone(spec)
            m.params = list(m.params) + [(n, val, None, None, c)]
            yield (f"kind_clash:state_vs_parameter:{tag}", "state", "same_comp", m, n)
            m = clone(spec)
            m.params = list(m.params) + [(n, val, None, None, other_component(spec, c))]
            yield (f"kind_clash:state_vs_parameter:{tag}", "state", "other_comp", m, n)
        # a parameter named like the derivative of the state
        m = clone(spec)
        m.params = list(m.params) + [(f"d{n}_dt", "0.5", None, None, c)]
        yield ("kind_clash:parameter_named_like_derivative", "derivative", "same_comp", m, f"d{n}_dt")
        # the state re-declared verbatim in another component which defines the derivative differently
        oc = other_component(spec, c)
        for k2, a in enumerate(spec.assigns):
            if a[0] == f"d{n}_dt":
                m = clone(spec)
                m.states = list(m.states) + [(n, v, u, d, oc)]
                m.assigns = _insert(m.assigns, (a[0], f"({a[1]}) * 2 + 1", oc, None), 0, "other")
                yield ("dup_derivative:other_component_redeclaring_state", "derivative", "other_comp", m, a[0])
    # a state without derivative in a component that holds declarations only
    m = clone(spec)
    m.states = list(m.states) + [(fresh, "0.5", None, None, "declarations only")]
    yield ("missing_derivative:declaration_only_component", "state", "new_comp", m, fresh)
    m = clone(spec)
    m.states = list(m.states) + [(fresh, "0.5", None, None, "declarations only")]
    if spec.assigns:
        k0, a0 = next(((k, a) for k, a in enumerate(spec.assigns) if a[0] not in derivs), (0, spec.assigns[0]))
        m.assigns[k0] = (a0[0], f"({a0[1]}) + {fresh}", a0[2], a0[3])
        yield ("missing_derivative:declaration_only_component_state_used", "state", "new_comp", m, fresh)
        m = clone(spec)
        m.assigns = _insert(m.assigns, (n, "0.75 + 1", c, None), 0, "other")
        yield ("kind_clash:state_vs_intermediate", "state", "same_comp", m, n)
    for k, (n, v, u, d, c) in enumerate(spec.params):
        m = clone(spec)
        m.assigns = _insert(m.assigns, (n, f"({v}) * 3 + 1", c, None), 0, "other")
        yield ("kind_clash:parameter_vs_intermediate", "parameter", "same_comp", m, n)
        m = clone(spec)
        m.assigns = _insert(m.assigns, (n, v, c, None), 0, "other")
        yield ("kind_clash:parameter_vs_intermediate:equal_value", "parameter", "same_comp", m, n)
    # missing / orphan derivatives
    for k, a in enumerate(spec.assigns):
        if a[0] in derivs:
            m = clone(spec)
            del m.assigns[k]
            yield ("missing_derivative", "derivative", "removed", m, derivs[a[0]])
            # ... while the derivative of another state of the component is written twice (a legal repetition: same right-hand
            # side, another trailing comment), so that the *number* of derivatives still equals the number of states
            sib = next((b for j, b in enumerate(spec.assigns) if j != k and b[0] in derivs and b[2] == a[2]), None)
            if sib is not None:
                m = clone(spec)
                del m.assigns[k]
                m.assigns = [(b[0], b[1], b[2], "first") if b[0] == sib[0] else b for b in m.assigns]
                m.assigns = m.assigns + [(sib[0], sib[1], sib[2], "again")]
                yield ("missing_derivative:sibling_derivative_repeated", "derivative", "removed", m, derivs[a[0]])
            oc = other_component(spec, a[2])
            m = clone(spec)
            del m.assigns[k]
            m.assigns = _insert(m.assigns, (a[0], a[1], oc, None), 0, "other")
            yield ("orphan_derivative:state_in_other_component", "derivative", "other_comp", m, a[0])
    m = clone(spec)
    c0 = spec.assigns[0][2] if spec.assigns else ""
    m.assigns = _insert(m.assigns, (f"d{fresh}_dt", "1.5", c0, None), 0, "other")
    yield ("orphan_derivative:undeclared_state", "derivative", "added", m, f"d{fresh}_dt")
