"""Random Myokit (.mmt) model texts for C15: nested variables, sibling components reusing local
names, names clashing with sympy's namespace, if/piecewise, every Myokit operator."""
from __future__ import annotations

import random

CLASH = ["zeta", "S", "E", "I", "N", "Q", "lambda_", "Symbol", "Abs", "sign", "re", "O", "pi_", "exp_", "E1", "oo", "Float", "Mod", "floor_"]
PLAIN = ["g", "k", "v0", "rate", "amp", "c", "w", "u", "q"]
UNITS = ["", " [mV]", " [1/ms]", " [uA/cm^2]", " [m^2 (0.01)]", " [mol/s (1e-07)]", " [L/F (1e-06)]", " [1]", " [g*m/s^2]", " [mmol/L]", " [mS/uF]"]
FUNS1 = ["exp", "log", "log10", "sqrt", "abs", "floor", "ceil", "sin", "cos", "tan", "atan", "asin", "acos"]


class Gen:
    def __init__(self, rng: random.Random):
        self.rng = rng

    def lit(self):
        return self.rng.choice(["0.5", "2", "1.5", "0.25", "3", "0.1", "10", "1e-3", "7.5"])

    def expr(self, names, d):
        r = self.rng
        if d <= 0 or r.random() < 0.2:
            return r.choice(names) if names and r.random() < 0.7 else self.lit()
        k = r.random()
        if k < 0.45:
            op = r.choice(["+", "-", "*", "/", "+", "*", "^", "%", "//"])
            a, b = self.expr(names, d - 1), self.expr(names, d - 1)
            if op == "^":
                return f"(abs({a}) + 0.5)^{r.choice(['2', '0.5', '3', '-1', '1.5'])}"
            if op in ("/", "%", "//"):
                return f"({a}) {op} (abs({b}) + 0.75)"
            return f"({a} {op} {b})"
        if k < 0.7:
            f = r.choice(FUNS1)
            a = self.expr(names, d - 1)
            if f in ("log", "log10", "sqrt"):
                a = f"abs({a}) + 0.5"
            if f in ("asin", "acos"):
                a = f"sin({a})"
            if f == "exp":
                a = f"sin({a})"
            if f == "tan":
                a = f"atan({a}) / 2"
            return f"{f}({a})"
        if k < 0.85:
            c = self.cond(names, d - 1)
            return f"if({c}, {self.expr(names, d - 1)}, {self.expr(names, d - 1)})"
        if k < 0.95:
            n = r.choice([2, 3, 4])
            parts = []
            for _ in range(n - 1):
                parts += [self.cond(names, d - 1), self.expr(names, d - 1)]
            parts.append(self.expr(names, d - 1))
            return "piecewise(" + ", ".join(parts) + ")"
        return f"-({self.expr(names, d - 1)})"

    def cond(self, names, d):
        r = self.rng
        a = r.choice(names) if names else "0.5"
        rel = r.choice(["<", ">", "<=", ">=", "==", "!="])
        base = f"({a} {rel} {self.lit()})"
        if r.random() < 0.25:
            # a flat chain of 3-5 operands (sympy flattens it into one n-ary And / Or)
            op = r.choice(["and", "or"])
            parts = [base]
            for _ in range(r.choice([2, 2, 3, 4])):
                parts.append(f"({r.choice(names) if names else '0.5'} {r.choice(['<', '>', '<=', '>='])} {self.lit()})")
            return "(" + f" {op} ".join(parts) + ")"
        k = r.random()
        if d > 0 and k < 0.3:
            return f"({base} {r.choice(['and', 'or'])} {self.cond(names, d - 1)})"
        if k < 0.4:
            return f"not {base}"
        return base


def gen_mmt(rng: random.Random):
    g = Gen(rng)
    n_comp = rng.choice([1, 2, 3])
    comps = [f"c{i}" for i in range(n_comp)]
    states = {}  # qname -> init
    body = {c: [] for c in comps}
    all_state_q = []
    locals_pool = ["alpha", "beta", "gamma", "tau", "inf"]  # sympy names (beta, gamma) reused as locals under several states
    for ci, c in enumerate(comps):
        for si in range(rng.choice([1, 2])):
            nm = rng.choice(["x", "y", "m", "h", "V", "S", "E", "N", "zeta"]) + (str(si) if si else "")
            if f"{c}.{nm}" in states:
                nm += "b"
            states[f"{c}.{nm}"] = rng.choice([0.5, 0.25, -0.75, 1.25, 0.05])
            all_state_q.append(f"{c}.{nm}")
    consts = {}
    for c in comps:
        for _ in range(rng.choice([1, 2, 3])):
            nm = rng.choice(PLAIN + CLASH)
            if f"{c}.{nm}" in states or f"{c}.{nm}" in consts:
                continue
            consts[f"{c}.{nm}"] = rng.choice(["2.0", "0.5", "1.5", "3", "0.125", "-0.75"])
    lines = ["[[model]]", "name: generated", "# Initial values"]
    for q, v in states.items():
        lines.append(f"{q} = {v}")
    lines += ["", "[engine]", "time = 0 bind time", "    in [ms]", ""]
    inter = {}
    for c in comps:
        lines.append(f"[{c}]")
        for q, v in consts.items():
            if q.startswith(c + "."):
                unit = rng.choice(UNITS)
                lines.append(f"{q.split('.')[1]} = {v}{unit}")
                if unit:
                    lines.append(f"    in{unit}")
                if rng.random() < 0.25:
                    # meta data becomes description="..." in the saved .ode file
                    lines.append("    desc: " + rng.choice(['the "fast" rate', 'plain words', '"""first line\n        second line"""', 'path C:\\models\\cell', 'a, b = c (d) [e] f']))
        def visible(cc):
            out = []
            for q in list(states) + list(consts) + list(inter):
                cq, n = q.split(".")
                out.append(n if cq == cc else q)
            return out + ["engine.time"]
        for k in range(rng.choice([0, 1, 2])):
            nm = f"w{k}"
            e = g.expr(visible(c), 2)
            lines.append(f"{nm} = {e}")
            if rng.random() < 0.4:
                lines.append(f"    in{rng.choice(UNITS[1:])}")
            inter[f"{c}.{nm}"] = e
        for q in [s for s in states if s.startswith(c + ".")]:
            sn = q.split(".")[1]
            vis = visible(c)
            nested = rng.random() < 0.6
            if nested:
                l1, l2 = rng.sample(locals_pool, 2)
                lines.append(f"dot({sn}) = {l1} * (1 - {sn}) - {l2} * {sn}")
                lines.append(f"    {l1} = {g.expr(vis, 2)}")
                if rng.random() < 0.4:
                    lines.append(f"        sub = {g.expr(vis, 1)}")
                    lines[-2] = lines[-2] + " + sub * 0.125"
                lines.append(f"    {l2} = {g.expr(vis + [l1], 2)}")
            else:
                lines.append(f"dot({sn}) = {g.expr(vis, 3)}")
            if rng.random() < 0.4:
                # the unit of the state variable; it must come before the nested variables
                k_dot = max(j for j, ln in enumerate(lines) if ln.startswith(f"dot({sn})"))
                lines.insert(k_dot + 1, f"    in{rng.choice(UNITS[1:])}")
        lines.append("")
    text = "\n".join(lines) + "\n"
    # the variable bound to time need not be called engine.time
    ec, tn = rng.choice([("engine", "time"), ("engine", "time"), ("environment", "time"), ("engine", "tt"), ("clock", "t_ms"), ("engine", "t")])
    if (ec, tn) != ("engine", "time"):
        text = text.replace("engine.time", f"{ec}.{tn}").replace("[engine]\ntime = 0 bind time", f"[{ec}]\n{tn} = 0 bind time")
    # an initial value given with a unit or as an expression; the derivative of one state used in the equation of another
    if rng.random() < 0.3:
        q0 = all_state_q[0]
        v0 = states[q0]
        text = text.replace(f"\n{q0} = {v0}\n", f"\n{q0} = " + rng.choice([f"{v0} [mV]", f"{v0} * 2 / 2", f"{v0} [1/ms]"]) + "\n", 1)
    if len(all_state_q) >= 2 and rng.random() < 0.3:
        first, last = all_state_q[0], all_state_q[-1]
        st_last = last.split(".")[1]
        text = text.replace(f"dot({st_last}) = ", f"dot({st_last}) = 0.125 * dot({first}) + ", 1) if text.count(f"dot({st_last}) = ") == 1 else text
    # powers of rounding functions (the writer has to keep the sign of -floor(-x) inside the power)
    if rng.random() < 0.3:
        st = all_state_q[0].split(".")[1]
        text = text.replace(f"dot({st}) = ", f"dot({st}) = ceil({all_state_q[0]} * 1.5)^2 * 0.125 - floor({all_state_q[0]})^3 * 0.0625 + ", 1)
    return text
