"""Typed random generator of expression *text* for the .ode language.

The generator only has to produce grammar-valid, well-typed text: what the text *means* is
decided by the reference (CPython's parser), so parentheses may be dropped at random and
the oracle follows whatever tree results.
"""
from __future__ import annotations

import random

FUNCS1 = ["exp", "cos", "sin", "tan", "acos", "asin", "atan", "log", "ln", "sqrt", "abs", "Abs", "floor"]
RELS = ["Lt", "Gt", "Le", "Ge", "Eq"]


class Profile:
    """Which constructs a generated expression may use."""

    def __init__(self, **kw):
        self.funcs = list(FUNCS1)
        self.mod = True
        self.cond = True
        self.ccond = True
        self.boolops = True
        self.max_arity = 5
        self.pow = True
        self.time = True
        self.int_literals = True
        self.unary = True
        self.redundant_parens = True
        self.drop_parens = True
        self.wrap_domain = 0.5
        self.eq = True
        self.hard_lits = True
        self.__dict__.update(kw)


INT_LITS = ["0", "1", "2", "3", "4", "5", "7", "8", "10", "16", "100"]
DEC_LITS = ["0.5", "0.25", "1.5", "2.0", "0.125", "0.1", "0.3", "2.5", "1.75", "3.14", "0.75", "12.0", "0.01", "1.", ".5", "6.8"]
SCI_LITS = ["1e-3", "1E3", "1.5e+2", "2e-2", "2E2", "1e3", "5e-1", "2.5E-1", "1e0"]
HARD_LITS = ["1e-12", "123456789", "0.333333333333333333", "1e10", "4503599627370497", "1234567890123456789012345678"]


class ExprGen:
    def __init__(self, rng: random.Random, names, profile: Profile | None = None, valuer=None):
        self.rng = rng
        self.names = list(names)  # numeric names usable as leaves
        self.p = profile or Profile()
        self.valuer = valuer  # text -> float | None (value at the model's default point)

    # ------------------------------------------------------------------ leaves
    def literal(self):
        r = self.rng.random()
        if r < 0.45 and self.p.int_literals:
            return self.rng.choice(INT_LITS)
        if r < 0.8:
            return self.rng.choice(DEC_LITS)
        if r < 0.95 or not self.p.hard_lits:
            return self.rng.choice(SCI_LITS)
        return self.rng.choice(HARD_LITS)

    def leaf(self):
        r = self.rng.random()
        if r < 0.6 and self.names:
            return self.rng.choice(self.names)
        if r < 0.66 and self.p.time:
            return self.rng.choice(["t", "time"])
        if r < 0.70:
            return "pi"
        return self.literal()

    # ----------------------------------------------------------------- numeric
    def num(self, d: int) -> str:
        rng = self.rng
        if d <= 0:
            return self.leaf()
        r = rng.random()
        if r < 0.15:
            return self.leaf()
        if r < 0.55:
            op = rng.choice(["+", "-", "*", "/", "+", "-", "*"] + (["**"] if self.p.pow else []))
            if op == "**":
                a = self.operand(d - 1)
                ex = rng.random()
                if ex < 0.55:
                    b = rng.choice(["2", "3", "-1", "-2", "0.5", "(1/2)", "(2/3)", "1.5", "4", "(-1/3)"])
                    if b.startswith("-") and rng.random() < 0.5:
                        b = f"({b})"
                elif ex < 0.8:
                    b = self.operand(0)
                else:
                    b = self.operand(d - 1)
                return f"{a} ** {b}" if rng.random() < 0.5 else f"{a}**{b}"
            a = self.operand(d - 1)
            b = self.operand(d - 1)
            if op in "-/" and a.strip() == b.strip():
                b = self.literal() if b.strip() not in INT_LITS else self.rng.choice(self.names or ["pi"])
            sp = " " if rng.random() < 0.8 else ""
            return f"{a}{sp}{op}{sp}{b}"
        if r < 0.63 and self.p.unary:
            s = rng.choice(["-", "-", "+", "--", "-+", "+-"]) if rng.random() < 0.4 else "-"
            return f"{s}{self.operand(d - 1)}"
        if r < 0.85:
            return self.call(d)
        if r < 0.95 and self.p.cond:
            return self.conditional(d)
        if self.p.ccond and r >= 0.95:
            return self.ccond(d)
        return self.call(d)

    def operand(self, d: int) -> str:
        """A numeric sub-expression, parenthesised or not at random."""
        e = self.num(d)
        atomic = e.replace("_", "a").replace(".", "0").isalnum()
        if atomic:
            if self.p.redundant_parens and self.rng.random() < 0.05:
                return f"({e})"
            return e
        if e.endswith(")") and self._is_call(e):
            if self.p.redundant_parens and self.rng.random() < 0.05:
                return f"({e})"
            return e
        if self.p.drop_parens and self.rng.random() < 0.25:
            return e  # precedence decides; the reference reads the text
        return f"({e})"

    @staticmethod
    def _is_call(e: str) -> bool:
        # text of the form name( ... ) with the parenthesis closing at the very end
        k = e.find("(")
        if k <= 0 or not e[:k].isidentifier():
            return False
        d = 0
        for i, ch in enumerate(e):
            if ch == "(":
                d += 1
            elif ch == ")":
                d -= 1
                if d == 0 and i != len(e) - 1:
                    return False
        return True

    def call(self, d: int) -> str:
        rng = self.rng
        if self.p.mod and rng.random() < 0.12:
            a = self.num(d - 1)
            b = rng.choice(["2", "3", "0.5", "1.5", "-2", "2.5", "7"]) if rng.random() < 0.7 else self.num(d - 1)
            return f"Mod({a}, {b})"
        f = rng.choice(self.p.funcs) if self.p.funcs else "exp"
        a = self.num(d - 1)
        if rng.random() < self.p.wrap_domain:
            a = self.restore_domain(f, a)
        return f"{f}({a})"

    def restore_domain(self, f, a):
        rng = self.rng
        if f in ("sqrt",):
            return rng.choice([f"({a})*({a}) + 1", f"abs({a})", f"({a})**2 + 0.25"])
        if f in ("log", "ln"):
            return rng.choice([f"abs({a}) + 0.5", f"({a})**2 + 1.5", f"exp({a}) + 1" if len(a) < 12 else f"abs({a}) + 2"])
        if f in ("acos", "asin"):
            return rng.choice([f"sin({a})", f"cos({a})", f"({a})/(abs({a}) + 1.5)"])
        if f == "exp":
            return rng.choice([f"sin({a})", f"-abs({a})/4", a])
        if f == "tan":
            return f"atan({a})/2"
        return a

    def near_literal(self, a: str):
        """A literal close to the value of `a` at the default point (so both sides are reachable)."""
        if self.valuer is None:
            return None
        v = self.valuer(a)
        if v is None or abs(v) > 1e6:
            return None
        k = round(v * 8) + self.rng.choice([-2, -1, 0, 0, 1, 2])
        x = k / 8
        s = repr(x)
        if s.endswith(".0") and self.rng.random() < 0.5:
            s = s[:-2]
        if s.startswith("-"):
            s = f"({s})" if self.rng.random() < 0.5 else s
        return s

    def relation(self, d: int) -> str:
        rng = self.rng
        rels = RELS if self.p.eq else RELS[:4]
        f = rng.choice(rels)
        for _ in range(8):
            a = self.num(max(d - 1, 0))
            if not any(ch.isalpha() for ch in a.replace("e", "").replace("E", "").replace("pi", "")):
                continue  # left side must depend on something
            b = None
            if rng.random() < 0.65:
                b = self.near_literal(a)
            if b is None:
                b = self.num(max(d - 1, 0)) if rng.random() < 0.5 else self.literal()
            if a.strip() == b.strip():
                continue
            if rng.random() < 0.2:
                a, b = b, a
            return f"{f}({a}, {b})"
        n = rng.choice(self.names or ["t"])
        return f"{f}({n}, {self.literal()})"

    def boolean(self, d: int) -> str:
        rng = self.rng
        if d <= 0 or not self.p.boolops or rng.random() < 0.5:
            return self.relation(d)
        r = rng.random()
        if r < 0.3:
            return f"Not({self.boolean(d - 1)})"
        k = rng.randint(2, self.p.max_arity) if rng.random() < 0.5 else 2
        f = "And" if r < 0.65 else "Or"
        ops = [self.boolean(d - 1) for _ in range(k)]
        if len(set(ops)) != len(ops):
            ops = list(dict.fromkeys(ops))
            if len(ops) < 2:
                return ops[0]
        return f"{f}({', '.join(ops)})"

    def conditional(self, d: int) -> str:
        c = self.boolean(min(d - 1, 2))
        a = self.num(d - 1)
        b = self.num(d - 1)
        tail = "," if self.rng.random() < 0.03 else ""
        return f"Conditional({c}, {a}, {b}{tail})"

    def ccond(self, d: int) -> str:
        f = self.rng.choice(["Lt", "Gt", "Le", "Ge"])
        for _ in range(8):
            l = self.num(max(d - 2, 0))
            if any(ch.isalpha() for ch in l.replace("e", "").replace("E", "").replace("pi", "")):
                break
        else:
            l = self.rng.choice(self.names or ["t"])
        r = self.near_literal(l) or self.literal()
        if l.strip() == r.strip():
            r = "0.375"
        a = self.num(d - 1)
        b = self.num(d - 1)
        s = self.rng.choice(["1", "0.5", "2.0", "0.1", "4"])
        return f"ContinuousConditional({f}({l}, {r}), {a}, {b}, {s})"
